"""CrossHair harnesses for C16 (real ItpLine / ItpSection) and the shared independent reference classification of
an .itp line.  Alphabet of the symbolic lines: letters/digits, blank, tab, ';', '#'."""
from gaddlemaps.parsers import ItpLine, ItpSection

ALPHABET = 'a1 \t;#'


def classify(line: str):
    """Independent reference reading of one raw .itp line (with or without its line break).
    -> (kind, tokens, comment) with kind in blank / directive / comment / content"""
    body = line[:-1] if line.endswith('\n') else line
    if not body.strip():
        return ('blank', [], '')
    if body.startswith('#'):
        return ('directive', [], body.strip())
    if body.startswith(';'):
        text = body[1:].strip()
        # an empty comment line carries no information: treated like a blank line
        return ('comment', [], text) if text else ('blank', [], '')
    cut = body.find(';')
    if cut < 0:
        return ('content', body.split(), '')
    toks, com = body[:cut].split(), body[cut + 1:].strip()
    if not toks:          # only white space before the ';'
        return ('comment', [], com) if com else ('blank', [], '')
    return ('content', toks, com)


def classify_parsed(it: ItpLine, raw: str):
    """The same triple, read from an ItpLine object that parsed `raw`."""
    if not it.content and not it.comment:
        return ('blank', [], '')
    if not it.content and raw.startswith('#'):
        return ('directive', [], it.comment)
    if not it.content:
        return ('comment', [], it.comment)
    return ('content', it.content.split(), it.comment)


def _norm(t):
    kind, toks, com = t
    return (kind, toks, ' '.join(com.replace(';', ' ; ').split()))


def line_roundtrip(body: str) -> str:
    """
    pre: len(body) <= 5 and all(c in 'a1 \t;#' for c in body)
    post: __return__ == ''
    """
    line = body + '\n'
    want = classify(line)
    it = ItpLine(line)
    first = classify_parsed(it, line)
    if _norm(first) != _norm(want):
        return 'first parse of %r gives %r, expected %r' % (line, first, want)
    out = it.line
    if want[0] != 'blank' and not out.endswith('\n'):
        return 'line %r is written back as %r without its line break' % (line, out)
    if '\n' in out[:-1]:
        return 'line %r is written back as several lines %r' % (line, out)
    back = classify_parsed(ItpLine(out), out) if out else ('blank', [], '')
    if _norm(back) != _norm(want):
        return 'line %r written as %r is re-read as %r, expected %r' % (line, out, back, want)
    return ''


def section_roundtrip(b1: str, b2: str) -> str:
    """
    pre: len(b1) <= 4 and len(b2) <= 4 and all(c in 'a1 \t;#' for c in b1) and all(c in 'a1 \t;#' for c in b2)
    post: __return__ == ''
    """
    lines = [b1 + '\n', b2 + '\n']
    sec = ItpSection('sec', lines)
    text = str(sec)
    out_lines = text.split('\n')
    if out_lines[0].replace(' ', '') != '[sec]':
        return 'section header lost: %r' % text
    got = [c for c in (classify(l) for l in out_lines[1:]) if c[0] != 'blank']
    want = [c for c in (classify(l) for l in lines) if c[0] != 'blank']
    if [_norm(g) for g in got] != [_norm(w) for w in want]:
        return 'section with lines %r is written as %r: re-read %r, expected %r' % (lines, text, got, want)
    return ''
