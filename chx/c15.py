"""CrossHair harness for C15: the real topology reader on generated text with symbolic atom numbers / bond endpoints."""
import io
from gaddlemaps.parsers import read_topology


class _Mem(io.StringIO):
    def __init__(self, text):
        super().__init__(text)
        self.name = 'gen.itp'
        self.mode = 'r'


def numbering_and_bonds(n1: int, d2: int, d3: int, b1: int, b2: int, b3: int, where: int) -> str:
    """
    pre: 1 <= n1 <= 50 and 1 <= d2 <= 40 and 1 <= d3 <= 40
    pre: 0 <= b1 < 3 and 0 <= b2 < 3 and 0 <= b3 < 3 and 0 <= where < 3
    post: __return__ == ''
    """
    nums = [n1, n1 + d2, n1 + d2 + d3]
    text = '; generated\n[ moleculetype ]\n; name nrexcl\nMOL 1\n\n[ atoms ]\n'
    for i, nr in enumerate(nums):
        text += '%d  T  %d  R%d  A%d  %d  0.0 ; atom %d\n' % (nr, 1 + i // 2, i // 2, i, nr, i)
        if i == 1:
            text += '#ifdef X\n; commented 99 T 1 R Q 1 0.0\n#endif\n\n'
    sec = ['bonds', 'constraints', 'pairs'][where]
    other = ['constraints', 'pairs', 'bonds'][where]
    text += '\n[ %s ]\n; ai aj\n%d   %d 1\n' % (sec, nums[b1], nums[b2])
    text += '[ %s ]\n%d\t%d\n\n' % (other, nums[b2], nums[b3])
    name, atoms, bonds = read_topology(_Mem(text))
    if name != 'MOL':
        return 'name %r' % (name,)
    want_atoms = [('A%d' % i, 'R%d' % (i // 2), 1 + i // 2) for i in range(3)]
    if [tuple(a) for a in atoms] != want_atoms:
        return 'atoms %r' % (atoms,)
    want = {(b1, b2), (b2, b3)}
    got = {(a, b) for a, b in bonds}
    if {frozenset(p) for p in got} != {frozenset(p) for p in want}:
        return 'atom numbers %r, bond sections %s/%s: bonds %r, expected %r' % (nums, sec, other, sorted(got), sorted(want))
    return ''
