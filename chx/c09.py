"""CrossHair harness for C09: the real accept_metropolis on symbolic floats (including non-finite energies)."""
import math
import numpy as np
from gaddlemaps import accept_metropolis


def metropolis_rule(e0: float, e1: float, u: float) -> str:
    """
    pre: 0.0 <= u < 1.0
    pre: e0 > 0.0 and not math.isinf(e0)
    pre: e1 > 0.0 or math.isnan(e1)
    post: __return__ == ''
    """
    saved = np.random.rand
    np.random.rand = lambda *a: u
    try:
        with np.errstate(all='ignore'):
            got = bool(accept_metropolis(e0, e1))
    finally:
        np.random.rand = saved
    if math.isnan(e1):
        # a configuration whose overlap measure is not a number is neither "equal or lower" nor acceptable with any probability
        return '' if not got else 'proposal with measure %r accepted (held %r)' % (e1, e0)
    want = e1 <= e0 or u <= 0.01 * e0 / e1
    if got != want and abs(u - 0.01 * e0 / e1) > 1e-12:
        return 'accept_metropolis(%r, %r) with u=%r gives %r, rule says %r' % (e0, e1, u, got, want)
    return ''
