"""CrossHair harnesses for C13 (real GroFile line encoder / decoder / file writer-reader)."""
from gaddlemaps.parsers import GroFile

FLOATS = (0.0, 1.0005, -1.0005, 0.0005, 9999.999, -999.999, 12.3456, -0.0004)


def numbers_roundtrip(resid: int, atomid: int) -> str:
    """
    pre: 0 <= resid <= 10000000 and 0 <= atomid <= 10000000
    post: __return__ == ''
    """
    line = GroFile.parse_atomlist([resid, 'RES', 'AT', atomid, 1.0, 2.0, 3.0])
    if len(line) != 44:
        return 'line has %d characters instead of 44' % len(line)
    back = GroFile.parse_atomline(line)
    if resid <= 99999 and back[0] != resid:
        return 'residue number %d read back as %d' % (resid, back[0])
    if atomid <= 99999 and back[3] != atomid:
        return 'atom number %d read back as %d' % (atomid, back[3])
    if not (0 <= back[0] <= 99999 and 0 <= back[3] <= 99999):
        return 'wrapped number outside five columns'
    return ''


def names_roundtrip(resname: str, name: str) -> str:
    """
    pre: 1 <= len(resname) <= 5 and 1 <= len(name) <= 5
    pre: all(33 <= ord(c) <= 126 for c in resname) and all(33 <= ord(c) <= 126 for c in name)
    post: __return__ == ''
    """
    line = GroFile.parse_atomlist([1, resname, name, 1, 1.0, 2.0, 3.0])
    if len(line) != 44:
        return 'line has %d characters' % len(line)
    back = GroFile.parse_atomline(line)
    if back[1] != resname or back[2] != name:
        return 'names %r %r read back as %r %r' % (resname, name, back[1], back[2])
    return ''


def line_width_constant(decimals: int, vel: bool) -> str:
    """
    pre: 1 <= decimals <= 6
    post: __return__ == ''
    """
    W = decimals + 5
    rec = [7, 'RES', 'AT', 9, 1.0005, -0.0004, 9.999]
    if vel:
        rec += [0.1, -0.2, 0.3]
    line = GroFile.parse_atomlist(rec, format_dict={'position': (W, decimals), 'velocities': vel})
    want = 20 + 3 * W * (2 if vel else 1)
    if len(line) != want:
        return 'line has %d characters instead of %d' % (len(line), want)
    f = GroFile.determine_format(line)
    if f['position'] != (W, decimals) or bool(f['velocities']) != vel:
        return 'format inferred as %r' % (f,)
    back = GroFile.parse_atomline(line)
    for x, y in zip(rec[4:7], back[4:7]):
        if abs(x - y) > 0.5 * 10 ** (-decimals) * (1 + 1e-6):
            return 'coordinate %r read back as %r' % (x, y)
    return ''
