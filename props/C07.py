"""C07 - single-atom move restores every bond length on acyclic molecules.
Real gaddlemaps._transform_molecule.move_mol_atom / find_atom_random_displ on symbolic coordinates,
displacement, bond table and random draws."""
import itertools
import numpy as np
import z3
from symx.core import twin_record as core_twin

ID = 'C07'
FUNCTIONS = ['gaddlemaps._transform_molecule:move_mol_atom', 'gaddlemaps._transform_molecule:find_atom_random_displ']
EXPLANATION = ('The real move_mol_atom runs on symbolic coordinates, a symbolic displacement and a symbolic bond table '
               '(every tabulated length an independent positive real: "agree or disagree with the geometry").  For every '
               'labelled tree within the bound and every moved atom, each bond |x_i - x_j|^2 = b_ij^2 is one SMT obligation '
               '(let-abstraction of the already placed parent atom keeps each query constant-size); the moved atom is '
               'displaced by exactly displ; the input array is untouched.  For cyclic graphs the traversal tree is read '
               'from the real deque traffic.  find_atom_random_displ runs with np.random.* replaced by fresh symbolic '
               'draws; perpendicularity is a polynomial identity per neighbour count.')
BOUNDS = {'quick': {'trees': 'all labelled trees on 2..5 atoms (1+3+16+125), every moved atom', 'cyclic': '8 graphs on 3..6 atoms incl. rings with side chains',
                    'random displacement': 'neighbour counts 1,2,3,4'},
          'thorough': {'trees': 'all labelled trees on 2..6 atoms (+1296) and 7-atom chain/star/caterpillar/broom families, every moved atom',
                       'cyclic': 'all connected cyclic graphs on 3..5 atoms', 'neighbour order': 'sorted and reversed'}}
OUTSIDE = ['trees with more than 6-7 atoms and random graphs up to 60 atoms', 'binary64 rounding (1e-9 relative only at replay)',
           'degenerate geometries where two bonded atoms coincide during the propagation (division by zero paths are listed, not claimed)']
STUBS = ['np.random.rand/normal/choice/randint -> fresh symbolic draws within the documented support',
         'collections.deque of the module wrapped by a recording subclass (cyclic graphs only)']
ASSUMPTIONS = ['tabulated bond lengths > 0', 'generic coordinates: no two atoms joined by a propagation step coincide',
               'exact real arithmetic']
CASE_TIMEOUT = {'quick': 600, 'thorough': 3000}
FRESH_PROCESS = False


def prufer_trees(n):
    if n == 1:
        yield []
        return
    if n == 2:
        yield [(0, 1)]
        return
    for seq in itertools.product(range(n), repeat=n - 2):
        deg = [1] * n
        for v in seq:
            deg[v] += 1
        edges = []
        seq = list(seq)
        for v in seq:
            for u in range(n):
                if deg[u] == 1:
                    edges.append((min(u, v), max(u, v)))
                    deg[u] -= 1
                    deg[v] -= 1
                    break
        u, w = [x for x in range(n) if deg[x] == 1]
        edges.append((u, w))
        yield sorted(edges)


def connected(n, edges):
    adj = {i: set() for i in range(n)}
    for a, b in edges:
        adj[a].add(b); adj[b].add(a)
    seen = {0}; st = [0]
    while st:
        x = st.pop()
        for y in adj[x]:
            if y not in seen:
                seen.add(y); st.append(y)
    return len(seen) == n


def cyclic_graphs(n):
    pairs = list(itertools.combinations(range(n), 2))
    for m in range(n, len(pairs) + 1):
        for es in itertools.combinations(pairs, m):
            if connected(n, es):
                yield list(es)


def cases(tier):
    cs = []
    maxn = 5 if tier == 'quick' else 6
    for n in range(2, maxn + 1):
        trees = list(prufer_trees(n))
        # group trees to keep process start-up out of the picture
        chunk = 8 if n <= 5 else 12
        for i in range(0, len(trees), chunk):
            cs.append({'name': 'trees/n%d/%d-%d' % (n, i, min(len(trees), i + chunk) - 1), 'kind': 'tree', 'n': n,
                       'graphs': trees[i:i + chunk], 'order': 'sorted'})
    if tier == 'thorough':
        fam = {'chain7': [(i, i + 1) for i in range(6)], 'star7': [(0, i) for i in range(1, 7)],
               'caterpillar7': [(0, 1), (1, 2), (2, 3), (1, 4), (2, 5), (3, 6)],
               'broom7': [(0, 1), (1, 2), (2, 3), (3, 4), (3, 5), (3, 6)],
               'chain7-shuffled': [(3, 0), (0, 5), (5, 1), (1, 6), (6, 2), (2, 4)]}
        for k, g in fam.items():
            cs.append({'name': 'trees/' + k, 'kind': 'tree', 'n': 7, 'graphs': [sorted((min(a, b), max(a, b)) for a, b in g)], 'order': 'sorted'})
        trees5 = list(prufer_trees(5))
        for i in range(0, len(trees5), 25):
            cs.append({'name': 'trees-reversed-neighbours/n5/%d' % i, 'kind': 'tree', 'n': 5, 'graphs': trees5[i:i + 25], 'order': 'reversed'})
        for n in (3, 4, 5):
            gs = list(cyclic_graphs(n))
            for i in range(0, len(gs), 6):
                cs.append({'name': 'cyclic/n%d/%d' % (n, i), 'kind': 'cyclic', 'n': n, 'graphs': gs[i:i + 6], 'order': 'sorted'})
    else:
        quick_cyc = [(3, [(0, 1), (1, 2), (0, 2)]), (4, [(0, 1), (1, 2), (2, 3), (0, 3)]), (4, [(0, 1), (1, 2), (2, 3), (0, 3), (0, 2)]),
                     (5, [(0, 1), (1, 2), (2, 3), (3, 4), (0, 4)]), (4, [(0, 1), (1, 2), (0, 2), (2, 3)]), (5, [(0, 1), (1, 2), (0, 2), (2, 3), (3, 4)]),
                     # rings whose vertices carry side chains (a ring neighbour that is reached twice would drag its side chain)
                     (5, [(0, 1), (1, 2), (0, 2), (1, 3), (2, 4)]), (6, [(0, 1), (1, 2), (2, 3), (0, 3), (1, 4), (3, 5)])]
        for k, (n, g) in enumerate(quick_cyc):
            cs.append({'name': 'cyclic/q%d' % k, 'kind': 'cyclic', 'n': n, 'graphs': [g], 'order': 'sorted'})
    for nb in (1, 2, 3, 4):
        cs.append({'name': 'random-displ/neigh%d' % nb, 'kind': 'displ', 'nb': nb})
    # the bond table lists the neighbours in an arbitrary order ("first three" = first three table entries)
    for nb, perm in ((2, [2, 1]), (3, [3, 1, 2]), (3, [2, 3, 1]), (4, [4, 2, 1, 3]), (4, [3, 4, 1, 2]), (4, [2, 1, 4, 3])):
        cs.append({'name': 'random-displ/neigh%d/table-order-%s' % (nb, ''.join(map(str, perm))), 'kind': 'displ', 'nb': nb, 'perm': perm})
    return cs


def _bonds_info(n, edges, order, bvar):
    from symx.core import SymReal
    info = {i: [] for i in range(n)}
    for a, b in edges:
        info[a].append((b, SymReal(bvar[(a, b)])))
        info[b].append((a, SymReal(bvar[(a, b)])))
    for i in info:
        info[i].sort(key=lambda t: t[0], reverse=(order == 'reversed'))
    return info


def run_case(case):
    from symx.core import explore, SymReal, expr, concretize_inputs, SymZeroDivision, dot3
    from symx import npx
    import gaddlemaps._transform_molecule as tm
    cap = 60000 if case['tier'] == 'quick' else 180000
    records, samples, nontrivial = [], [], []
    st = {'paths': 0, 'queries': 0, 'solver_s': 0.0}
    rnd = npx.RandomStub()
    npx.install(random=rnd, modules=['gaddlemaps._transform_molecule'])

    if case['kind'] == 'displ':
        nb = case['nb']
        n = nb + 1
        T = case.get('perm') or list(range(1, n))      # neighbour indices in table order
        xv = [[z3.Real('x%d_%d' % (i, k)) for k in range(3)] for i in range(n)]
        bv = {(0, j): z3.Real('b0_%d' % j) for j in range(1, n)}
        sig = z3.Real('sigma')
        inputs = {'x%d_%d' % (i, k): xv[i][k] for i in range(n) for k in range(3)}

        def run(ctx):
            X = np.array([[SymReal(v) for v in row] for row in xv], dtype=object)
            for v in bv.values():
                ctx.assume(v > 0)
            ctx.assume(sig > 0)
            info = _bonds_info(n, [(0, j) for j in range(1, n)], 'sorted', bv)
            if case.get('perm'):
                by = {t[0]: t for t in info[0]}
                info[0] = [by[j] for j in case['perm']]
            mark = len(ctx.log)
            d = tm.find_atom_random_displ(X, info, 0, sigma_scale=SymReal(sig))
            return d, [l for l in ctx.log[mark:]]
        for ctx, res, exc in explore(run):
            st['paths'] += 1
            if res is None:
                # division by zero <=> direction vector is zero <=> random vector parallel to the reference / neighbours collinear
                draws = [l[2] for l in ctx.log if l[0] == 'draw' and l[1] == 'rand']
                X = [[xv[i][k] for k in range(3)] for i in range(n)]
                if nb == 1:
                    ref = [X[T[0]][k] - X[0][k] for k in range(3)]
                elif nb == 2:
                    ref = [X[T[0]][k] - X[T[1]][k] for k in range(3)]
                if nb <= 2 and draws:
                    r_ = [expr(v) for v in draws[0]]
                    cr = [r_[1] * ref[2] - r_[2] * ref[1], r_[2] * ref[0] - r_[0] * ref[2], r_[0] * ref[1] - r_[1] * ref[0]]
                else:
                    u = [X[T[0]][k] - X[T[2]][k] for k in range(3)]
                    w = [X[T[0]][k] - X[T[1]][k] for k in range(3)]
                    cr = [u[1] * w[2] - u[2] * w[1], u[2] * w[0] - u[0] * w[2], u[0] * w[1] - u[1] * w[0]]
                r, secs, m = ctx.prove(z3.And(*[c == 0 for c in cr]), cap)
                records.append({'name': 'path%d: non-finite only when the random vector is parallel to the reference direction '
                                        '(or the first three neighbours are collinear)' % st['paths'], 'status': r, 'secs': secs,
                                'witness': None if r != 'sat' else {'kind': 'displ', 'nb': nb, 'obligation': 'finite',
                                                                     'inputs': concretize_inputs(ctx, [], inputs, m)}})
                st['queries'] += ctx.queries; st['solver_s'] += ctx.solver_time
                continue
            nontrivial.append('path%d' % st['paths'])
            d, log = res
            records.append(core_twin(ctx, cap, inputs))
            X = [[xv[i][k] for k in range(3)] for i in range(n)]
            if nb == 1:
                perp = [[X[T[0]][k] - X[0][k] for k in range(3)]]
                what = 'perpendicular to the bond'
            elif nb == 2:
                perp = [[X[T[0]][k] - X[T[1]][k] for k in range(3)]]
                what = 'perpendicular to the line through the two neighbours'
            else:
                perp = [[X[T[0]][k] - X[T[2]][k] for k in range(3)], [X[T[0]][k] - X[T[1]][k] for k in range(3)]]
                what = 'perpendicular to the plane through the first three neighbours'
            claim = z3.And(*[sum(expr(d[k]) * p[k] for k in range(3)) == 0 for p in perp])
            r, secs, m = ctx.prove(claim, cap)
            rec = {'name': 'path%d: displacement %s' % (st['paths'], what), 'status': r, 'secs': secs}
            if r == 'sat':
                rec['witness'] = {'kind': 'displ', 'nb': nb, 'perm': T, 'inputs': concretize_inputs(ctx, [z3.Not(claim)], inputs, m), 'obligation': what}
            records.append(rec)
            # modulus: |displ| = |normal draw| and the sigma handed to normal() is b0 * sigma_scale
            nd = [l[2] for l in log if l[0] == 'draw' and l[1] == 'norm']
            na = [l for l in log if l[0] == 'normal-args']
            if nd and na:
                g = expr(nd[-1])
                # let-abstraction: the components of the (unnormalised) direction become fresh reals
                from symx.core import radicand_factors
                sub = []
                for nm_ in list(ctx.defs):
                    fs = radicand_factors(ctx, z3.Real(nm_))
                    if fs and len(fs) == 3:
                        sub = [(fs[k], z3.Real('dir!abs%d' % k)) for k in range(3) if not z3.is_const(fs[k])]
                r, secs, m = ctx.prove_abstracted(sum(expr(d[k]) * expr(d[k]) for k in range(3)) == g * g, [sub], [], cap)
                records.append({'name': 'path%d: |displacement| = |normal variate|' % st['paths'], 'status': r, 'secs': secs})
                r, secs, m = ctx.prove(z3.And(expr(na[-1][1]) == 0, expr(na[-1][2]) == bv[(0, T[0])] * sig), cap)
                records.append({'name': 'path%d: variate drawn with sigma = first bond length * sigma_scale' % st['paths'], 'status': r, 'secs': secs})
            samples.append({'neighbours': nb, 'displ[0]': str(z3.simplify(expr(d[0])))[:200]})
            st['queries'] += ctx.queries; st['solver_s'] += ctx.solver_time
        return {'records': records, 'paths': st['paths'], 'queries': st['queries'], 'solver_s': st['solver_s'],
                'samples': samples, 'nontrivial': nontrivial}

    # ------------------------------ move_mol_atom -------------------------------------------------
    deadline = __import__('time').time() + 0.6 * CASE_TIMEOUT[case.get('tier', 'quick')]
    n = case['n']
    pops = []

    class RecDeque(__import__('collections').deque):
        def pop(self):
            v = super().pop()
            if isinstance(v, tuple):
                pops.append((v[0], v[1]))
            return v
    tm.deque = RecDeque
    for gi, edges in enumerate(case['graphs']):
        edges = [tuple(e) for e in edges]
        xv = [[z3.Real('x%d_%d' % (i, k)) for k in range(3)] for i in range(n)]
        dv = [z3.Real('d%d' % k) for k in range(3)]
        bv = {e: z3.Real('b%d_%d' % e) for e in edges}
        inputs = {'x%d_%d' % (i, k): xv[i][k] for i in range(n) for k in range(3)}
        inputs.update({'d%d' % k: dv[k] for k in range(3)})
        inputs.update({'b%d_%d' % e: v for e, v in bv.items()})
        for moved in range(n):
            tag = '%s moved=%d' % (edges, moved)

            def run(ctx):
                del pops[:]
                X = np.array([[SymReal(v) for v in row] for row in xv], dtype=object)
                orig = [[X[i, k] for k in range(3)] for i in range(n)]
                for v in bv.values():
                    ctx.assume(v > 0)
                info = _bonds_info(n, edges, case['order'], bv)
                out = tm.move_mol_atom(X, info, atom_index=moved, displ=np.array([SymReal(v) for v in dv], dtype=object))
                untouched = out is not X and all(X[i, k] is orig[i][k] for i in range(n) for k in range(3))
                return out, untouched, list(pops)
            npaths_here = 0
            for ctx, res, exc in explore(run, max_paths=400):
                st['paths'] += 1
                if res is None:
                    # a propagation step met two coincident atoms: outside the genericity precondition; listed only
                    records.append({'name': '%s: degenerate path (coincident atoms in a propagation step) - outside the claim' % tag,
                                    'status': 'skipped', 'secs': 0})
                    st['queries'] += ctx.queries; st['solver_s'] += ctx.solver_time
                    continue
                npaths_here += 1
                nontrivial.append('%d/%d/p%d' % (gi, moved, npaths_here))
                out, untouched, tree = res
                if gi == 0 and moved == 0:
                    records.append(core_twin(ctx, cap, inputs))
                records.append({'name': '%s: input array not modified, fresh array returned' % tag,
                                'status': 'unsat' if untouched else 'sat', 'secs': 0,
                                'witness': None if untouched else {'kind': 'move', 'n': n, 'edges': edges, 'moved': moved, 'order': case['order'],
                                                                   'inputs': {k: [1 + (hash(k) % 7), 2] for k in inputs}, 'obligation': 'input modified'}})
                claim = z3.And(*[expr(out[moved][k]) == xv[moved][k] + dv[k] for k in range(3)])
                r, secs, m = ctx.prove(claim, cap)
                rec = {'name': '%s: moved atom displaced by exactly displ' % tag, 'status': r, 'secs': secs}
                if r == 'sat':
                    rec['witness'] = {'kind': 'move', 'n': n, 'edges': edges, 'moved': moved, 'order': case['order'],
                                      'inputs': concretize_inputs(ctx, [z3.Not(claim)], inputs, m), 'obligation': 'moved atom'}
                records.append(rec)
                parent = {c: p for p, c in tree}
                if case['kind'] == 'tree':
                    todo = edges
                    # every atom must have been reached
                    if set(parent) | {moved} != set(range(n)):
                        records.append({'name': '%s: every atom reached by the propagation' % tag, 'status': 'sat', 'secs': 0,
                                        'witness': {'kind': 'move', 'n': n, 'edges': edges, 'moved': moved, 'order': case['order'],
                                                    'inputs': {k: [1 + (i * 7 % 11), 4] for i, k in enumerate(sorted(inputs))}, 'obligation': 'reach'}})
                else:
                    kids = [c for p, c in tree]
                    if len(kids) != len(set(kids)):
                        # an atom taken from the queue twice is repositioned after atoms placed relative to it: the traffic is
                        # not a tree.  Confirmed (or not) by the replay on generic numbers: the exact bonds must span the molecule.
                        import fractions as _fr
                        gen = {}
                        for i_, k_ in enumerate(sorted(inputs)):
                            gen[k_] = [3 + (i_ * 7) % 11, 8] if k_.startswith('b') else [((i_ * 37 + 11) % 41) - 20, 16]
                        records.append({'name': '%s: every atom is taken from the propagation queue once (traversal is a tree)' % tag, 'status': 'sat', 'secs': 0,
                                        'witness': {'kind': 'move', 'n': n, 'edges': edges, 'moved': moved, 'order': case['order'], 'inputs': gen, 'obligation': 'repositioned twice'}})
                    todo = [(min(p, c), max(p, c)) for p, c in tree]
                    ok = set(parent) | {moved} == set(range(n)) and all((min(p, c), max(p, c)) in bv for p, c in tree)
                    records.append({'name': '%s: traversal tree spans the graph along real bonds' % tag, 'status': 'unsat' if ok else 'sat',
                                    'secs': 0, 'witness': None})
                for (a, b) in todo:
                    child = a if parent.get(a) == b else b
                    par = b if child == a else a
                    claim = sum((expr(out[a][k]) - expr(out[b][k])) ** 2 for k in range(3)) == bv[(min(a, b), max(a, b))] ** 2
                    if __import__('time').time() > deadline:
                        # out of wall time for this case: the remaining obligations are left undecided (never counted as passed)
                        records.append({'name': '%s: bond %d-%d has its tabulated length (case time budget used up)' % (tag, a, b), 'status': 'unknown', 'secs': 0})
                        continue
                    # let-abstraction: the parent's final position becomes three fresh reals
                    q = [z3.Real('q!abs%d' % k) for k in range(3)]
                    sub = [(expr(out[par][k]), q[k]) for k in range(3)]
                    if any(z3.is_const(s[0]) for s in sub):
                        r, secs, m = ctx.prove(claim, cap)
                    else:
                        r, secs, m = ctx.prove_abstracted(claim, [sub], [], cap)
                    rec = {'name': '%s: bond %d-%d has its tabulated length' % (tag, a, b), 'status': r, 'secs': secs}
                    if r == 'sat':
                        rec['witness'] = {'kind': 'move', 'n': n, 'edges': edges, 'moved': moved, 'order': case['order'],
                                          'inputs': concretize_inputs(ctx, [z3.Not(claim)], inputs, m), 'obligation': 'bond %d-%d' % (a, b)}
                    records.append(rec)
                if len(samples) < 3:
                    samples.append({'graph': edges, 'moved': moved, 'traversal': tree,
                                    'x_last[0]': str(z3.simplify(expr(out[n - 1][0])))[:160]})
                st['queries'] += ctx.queries; st['solver_s'] += ctx.solver_time
    return {'records': records, 'paths': st['paths'], 'queries': st['queries'], 'solver_s': st['solver_s'],
            'samples': samples, 'nontrivial': nontrivial}


def replay(w):
    from symx.core import fval
    from gaddlemaps import move_mol_atom, find_atom_random_displ
    v = {k: fval(x) for k, x in w['inputs'].items()}
    if w['kind'] == 'displ':
        nb = w['nb']; n = nb + 1
        X = np.array([[v['x%d_%d' % (i, k)] for k in range(3)] for i in range(n)])
        T = w.get('perm') or list(range(1, n))
        info = {0: [(j, 1.0) for j in T]}
        bad = []
        rs = np.random.RandomState(1)
        st = np.random.get_state()
        np.random.seed(12345)
        try:
            for _ in range(20):
                with np.errstate(all='ignore'):
                    d = find_atom_random_displ(X, info, 0, 0.5)
                if not np.all(np.isfinite(d)):
                    bad.append('non-finite'); break
                refs = {1: [X[T[0]] - X[0]], 2: [X[T[0]] - X[T[1 % len(T)]]]}.get(nb, [X[T[0]] - X[T[2 % len(T)]], X[T[0]] - X[T[1 % len(T)]]])
                if any(abs(np.dot(d, r)) > 1e-9 * max(1, np.linalg.norm(d) * np.linalg.norm(r)) for r in refs):
                    bad.append('not perpendicular'); break
        finally:
            np.random.set_state(st)
        return {'reproduced': bool(bad), 'what': 'find_atom_random_displ (%d neighbours): %s' % (nb, ', '.join(bad)), 'detail': {'x': X.tolist()}}
    n, edges, moved = w['n'], [tuple(e) for e in w['edges']], w['moved']
    X = np.array([[v['x%d_%d' % (i, k)] for k in range(3)] for i in range(n)])
    d = np.array([v['d%d' % k] for k in range(3)])
    info = {i: [] for i in range(n)}
    for a, b in edges:
        L = v['b%d_%d' % (a, b)]
        info[a].append((b, L)); info[b].append((a, L))
    for i in info:
        info[i].sort(key=lambda t: t[0], reverse=(w.get('order') == 'reversed'))
    X0 = X.copy()
    with np.errstate(all='ignore'):
        out = move_mol_atom(X, info, atom_index=moved, displ=d)
    bad = []
    if not np.all(np.isfinite(out)):
        bad.append('non-finite output')
    if np.abs(X - X0).max() > 0 or out is X:
        bad.append('input array modified')
    if np.abs(out[moved] - (X0[moved] + d)).max() > 1e-9:
        bad.append('moved atom not displaced by displ')
    adj = {i: set() for i in range(n)}
    for a, b in edges:
        adj[a].add(b); adj[b].add(a)
    is_tree = len(edges) == n - 1
    if is_tree:
        for a, b in edges:
            L = v['b%d_%d' % (a, b)]
            if abs(np.linalg.norm(out[a] - out[b]) - L) > 1e-9 * max(1, L):
                bad.append('bond %d-%d length %.9g != table %.9g' % (a, b, np.linalg.norm(out[a] - out[b]), L))
    if not is_tree and np.all(np.isfinite(out)):
        # cyclic graph: the bonds that have exactly their tabulated length must contain a spanning tree (the traversal tree
        # rooted at the moved atom, whatever order the implementation visits the atoms in)
        exact = [(a, b) for a, b in edges if abs(np.linalg.norm(out[a] - out[b]) - v['b%d_%d' % (a, b)]) <= 1e-9 * max(1, v['b%d_%d' % (a, b)])]
        seen, st_ = {moved}, [moved]
        while st_:
            x = st_.pop()
            for a, b in exact:
                y = b if a == x else a if b == x else None
                if y is not None and y not in seen:
                    seen.add(y); st_.append(y)
        if len(seen) != n:
            bad.append('the bonds with their tabulated length do not span the molecule from the moved atom (atoms %s cut off)' % sorted(set(range(n)) - seen))
    return {'reproduced': bool(bad), 'what': 'move_mol_atom (%s, moved atom %d): %s' % ('tree' if is_tree else 'cyclic', moved, '; '.join(bad)[:300]),
            'detail': {'edges': edges, 'x': X0.tolist(), 'displ': d.tolist(), 'out': np.asarray(out, dtype=float).tolist()}}
