"""C20 - command-line mapping equals the library workflow; discovery is deterministic.
(a) real sort_molecules / classify_files with the iteration order of every set a symbolic permutation;
(b) real auto_map against recording stand-ins for the library objects: call trace = library workflow.
The byte-for-byte equality of the output file for a given seed is outside this technique (see OUTSIDE)."""
import itertools
import os
import z3

ID = 'C20'
FUNCTIONS = ['gaddlemaps._cli:sort_molecules', 'gaddlemaps._cli:classify_files', 'gaddlemaps._cli:auto_map']
EXPLANATION = ('(a) discovery: candidate files (coarse-grained and atomistic topologies and coordinates of two species, a distractor topology of a '
               'species that is not in the system, an unrelated file) are generated on disk per case; the real sort_molecules runs with `set` '
               '(module global of the command-line module) replaced by a set whose iteration order is a symbolic permutation index, so that '
               'every order in which the interpreter could enumerate the candidate sets is a path (solver-enumerated, coverage proved); on '
               'every path the returned mapping must equal the intended (start topology, end coordinates, end topology) triples, must not '
               're-add species given explicitly and must not fail; (b) workflow: the real auto_map runs with the library objects '
               '(Manager, Molecule.from_files, read_topology) replaced by recorders and an opaque symbolic scale; the recorded call '
               'trace must be load -> attach ends -> align -> exchange maps(scale) -> extrapolate(requested path or mapped_<name> beside the input).')
BOUNDS = {'candidate files': '<= 8 per case (2 species x 3 files + distractor topology + unrelated file, or + 2 distractor coordinate files with the atom counts of the wanted ones), every subset of species given explicitly, candidate lists with a missing atomistic topology / coordinate file',
          'set orders': 'every permutation of each candidate set (<= 5 elements: 120)', 'scale / paths': 'opaque symbolic values'}
OUTSIDE = ['byte equality of the file written by the command-line tool and by the library for the same seed: a whole-program run through argparse, file I/O, '
           'the concrete Mersenne-Twister stream and 5000*n binary64 Monte-Carlo steps - not encodable; the call-trace equality (b) plus C05/C06/C09 is what is decided',
           'main() under several PYTHONHASHSEED values as subprocesses (the symbolic set order covers every order a hash seed can produce)', 'argparse option parsing']
STUBS = ['gaddlemaps._cli.set -> set with symbolic iteration order', 'Manager / Molecule.from_files / read_topology -> recorders in (b)']
ASSUMPTIONS = ['species of the two resolutions share the moleculetype name (documented requirement of --auto)']
CASE_TIMEOUT = {'quick': 900, 'thorough': 2400}


def _write_files(d):
    """two species X (2 beads -> 3 atoms) and Y (1 bead -> 2 atoms); system box with X Y X"""
    from symx.files import write_gro_text
    def itp(path, name, atoms, bonds):
        lines = ['[ moleculetype ]', '%s 1' % name, '', '[ atoms ]']
        for i, (an, rn) in enumerate(atoms):
            lines.append('%d T 1 %s %s %d 0.0' % (i + 1, rn, an, i + 1))
        lines += ['', '[ bonds ]'] + ['%d %d 1' % (a + 1, b + 1) for a, b in bonds] + ['']
        open(path, 'w').write('\n'.join(lines))
    def gro(path, recs):
        open(path, 'w').write(write_gro_text(recs, comment=os.path.basename(path)))
    f = {}
    f['X_CG.itp'] = os.path.join(d, 'X_CG.itp'); itp(f['X_CG.itp'], 'XMOL', [('B1', 'XCG'), ('B2', 'XCG')], [(0, 1)])
    f['X_AA.itp'] = os.path.join(d, 'X_AA.itp'); itp(f['X_AA.itp'], 'XMOL', [('C1', 'XAA'), ('C2', 'XAA'), ('C3', 'XAA')], [(0, 1), (1, 2)])
    f['X_AA.gro'] = os.path.join(d, 'X_AA.gro'); gro(f['X_AA.gro'], [[1, 'XAA', 'C%d' % (i + 1), i + 1, 0.1 * i, 0.0, 0.0] for i in range(3)])
    f['Y_CG.itp'] = os.path.join(d, 'Y_CG.itp'); itp(f['Y_CG.itp'], 'YMOL', [('Q1', 'YCG')], [])
    f['Y_AA.itp'] = os.path.join(d, 'Y_AA.itp'); itp(f['Y_AA.itp'], 'YMOL', [('N1', 'YAA'), ('N2', 'YAA')], [(0, 1)])
    f['Y_AA.gro'] = os.path.join(d, 'Y_AA.gro'); gro(f['Y_AA.gro'], [[1, 'YAA', 'N%d' % (i + 1), i + 1, 0.1 * i, 0.2, 0.0] for i in range(2)])
    f['Z_CG.itp'] = os.path.join(d, 'Z_CG.itp'); itp(f['Z_CG.itp'], 'ZMOL', [('W1', 'ZCG'), ('W2', 'ZCG'), ('W3', 'ZCG')], [(0, 1), (1, 2)])
    # coordinate files of species that are not in the system, with the same atom counts as the wanted ones
    f['W_AA.gro'] = os.path.join(d, 'W_AA.gro'); gro(f['W_AA.gro'], [[1, 'WAA', 'D%d' % (i + 1), i + 1, 0.1 * i, 0.4, 0.0] for i in range(3)])
    f['V_AA.gro'] = os.path.join(d, 'V_AA.gro'); gro(f['V_AA.gro'], [[1, 'VAA', 'E%d' % (i + 1), i + 1, 0.1 * i, 0.6, 0.0] for i in range(2)])
    f['notes.txt'] = os.path.join(d, 'notes.txt'); open(f['notes.txt'], 'w').write('unrelated\n')
    recs, aid = [], 1
    for ri, sp in enumerate('XYX'):
        for an, rn in ([('B1', 'XCG'), ('B2', 'XCG')] if sp == 'X' else [('Q1', 'YCG')]):
            recs.append([ri + 1, rn, an, aid, 0.3 * aid, 0.1 * ri, 0.0]); aid += 1
    f['system.gro'] = os.path.join(d, 'system.gro'); gro(f['system.gro'], recs)
    return f


SCENARIOS = {
    'all-candidates': (['X_CG.itp', 'X_AA.itp', 'X_AA.gro', 'Y_CG.itp', 'Y_AA.itp', 'Y_AA.gro', 'Z_CG.itp', 'notes.txt'], [], {'XMOL': 'X', 'YMOL': 'Y'}),
    'X-explicit': (['X_CG.itp', 'X_AA.itp', 'X_AA.gro', 'Y_CG.itp', 'Y_AA.itp', 'Y_AA.gro', 'Z_CG.itp'], ['X'], {'YMOL': 'Y'}),
    'X-explicit-other-spelling': (['X_CG.itp', 'X_AA.itp', 'X_AA.gro', 'Y_CG.itp', 'Y_AA.itp', 'Y_AA.gro'], ['X!'], {'YMOL': 'Y'}),
    'both-explicit': (['X_CG.itp', 'X_AA.itp', 'X_AA.gro', 'Y_CG.itp', 'Y_AA.itp', 'Y_AA.gro'], ['X', 'Y'], {}),
    'Y-without-AA-topology': (['X_CG.itp', 'X_AA.itp', 'X_AA.gro', 'Y_CG.itp', 'Y_AA.gro', 'notes.txt'], [], {'XMOL': 'X', 'YMOL': None}),
    'Y-without-AA-coordinates': (['X_CG.itp', 'X_AA.itp', 'X_AA.gro', 'Y_CG.itp', 'Y_AA.itp'], [], {'XMOL': 'X', 'YMOL': 'no-coor'}),
    'same-size-coordinate-distractors': (['X_CG.itp', 'X_AA.itp', 'X_AA.gro', 'Y_CG.itp', 'Y_AA.itp', 'Y_AA.gro', 'W_AA.gro', 'V_AA.gro'], [], {'XMOL': 'X', 'YMOL': 'Y'}),
    'only-distractors': (['Z_CG.itp', 'notes.txt', 'X_AA.gro'], [], {}),
}


def cases(tier):
    cs = [{'name': 'discovery/' + k, 'scenario': k} for k in SCENARIOS]
    cs.append({'name': 'workflow/auto_map'})
    return cs


def _expected(files, scenario):
    cand, known, want = SCENARIOS[scenario]
    exp = {}
    for mol, sp in want.items():
        if sp is None:
            exp[mol] = {'top_CG': files['Y_CG.itp']}
        elif sp == 'no-coor':
            exp[mol] = {'top_CG': files['Y_CG.itp'], 'top_AA': files['Y_AA.itp']}
        else:
            exp[mol] = {'top_CG': files['%s_CG.itp' % sp], 'top_AA': files['%s_AA.itp' % sp], 'coor_AA': files['%s_AA.gro' % sp]}
    return exp


def _known(files, known):
    out = []
    for sp in known:
        respell = sp.endswith('!')          # the explicit triple names the same files with another spelling of the path
        sp = sp.rstrip('!')
        trip = [files['%s_CG.itp' % sp], files['%s_AA.gro' % sp], files['%s_AA.itp' % sp]]
        if respell:
            trip = [os.path.join(os.path.dirname(t), '.', os.path.basename(t)) for t in trip]
        out.append(trip)
    return out


def _run_discovery(files, scenario, order_hook=None):
    import gaddlemaps._cli as cli
    cand, known, want = SCENARIOS[scenario]
    known_files = _known(files, known)
    import warnings
    with warnings.catch_warnings():
        warnings.simplefilter('ignore')
        return cli.sort_molecules(files['system.gro'], [files[c] for c in cand], known_files)


def run_case(case):
    import tempfile
    import shutil
    records, samples, nontrivial = [], [], []
    if case['name'] == 'workflow/auto_map':
        return _workflow()
    from symx.core import explore, SymInt
    import gaddlemaps._cli as cli
    scenario = case['scenario']
    d = tempfile.mkdtemp(prefix='c20-')
    try:
        files = _write_files(d)
        exp = _expected(files, scenario)
        perm_vars = []

        class PermSet(set):
            """a set whose iteration order is chosen by a symbolic permutation index"""
            def __iter__(self):
                elems = sorted(set.__iter__(self))
                if len(elems) <= 1:
                    return iter(elems)
                perms = list(itertools.permutations(elems))
                v = z3.Int('perm%d' % len(perm_vars))
                perm_vars.append((v, len(perms)))
                from symx.core import Ctx
                Ctx.cur.assume(z3.And(v >= 0, v < len(perms)))
                return iter(perms[SymInt(v, 0, len(perms) - 1).concretize()])
        cli.set = PermSet
        bad = None
        results = set()
        paths = 0
        cover = []

        def run(ctx):
            del perm_vars[:]
            try:
                return ('ok', _run_discovery(files, scenario), list(perm_vars))
            except Exception as e:
                return ('exc', '%s: %s' % (type(e).__name__, e), list(perm_vars))
        for ctx, res, exc in explore(run, max_paths=20000):
            paths += 1
            cover.append((z3.And(*ctx.pc) if ctx.pc else z3.BoolVal(True), [pv for pv in (res[2] if res else [])]))
            if res is None:
                bad = bad or 'abort %r' % (exc,)
                continue
            kind, payload, pv = res
            if kind == 'exc':
                bad = bad or 'raised %s' % payload
                continue
            results.add(repr(sorted((k, sorted(v.items())) for k, v in payload.items())))
            if payload != exp and bad is None:
                bad = 'returned %r, expected %r' % ({k: {a: os.path.basename(b) for a, b in v.items()} for k, v in payload.items()},
                                                    {k: {a: os.path.basename(b) for a, b in v.items()} for k, v in exp.items()})
        nontrivial.append(scenario)
        rec = {'name': '%s: every enumeration order of the candidate sets (%d paths) gives the intended assignment, no failure, explicit species not re-added' % (scenario, paths),
               'status': 'unsat' if bad is None else 'sat', 'secs': 0}
        if bad is not None:
            rec['witness'] = {'kind': 'discovery', 'scenario': scenario, 'what': bad}
        records.append(rec)
        records.append({'name': '%s: the result does not depend on the enumeration order (%d distinct results)' % (scenario, len(results)),
                        'status': 'unsat' if len(results) <= 1 else 'sat', 'secs': 0,
                        'witness': None if len(results) <= 1 else {'kind': 'discovery', 'scenario': scenario, 'what': 'order dependent'}})
        samples.append({'scenario': scenario, 'candidates': SCENARIOS[scenario][0], 'explicit': SCENARIOS[scenario][1]})
        records.append({'name': 'reachability-twin', 'status': 'twin', 'secs': 0})
        return {'records': records, 'paths': paths, 'queries': 0, 'solver_s': 0, 'samples': samples, 'nontrivial': nontrivial}
    finally:
        cli.set = set
        shutil.rmtree(d, ignore_errors=True)


def _workflow():
    import gaddlemaps
    import gaddlemaps._cli as cli
    import gaddlemaps.parsers as parsers
    import gaddlemaps.components as comps
    from symx.core import SymReal
    records, nontrivial = [], []
    trace = []

    class RecAlignment:
        def __init__(self, name):
            self.name = name

        def __setattr__(self, k, v):
            if k == 'end':
                trace.append(('attach_end', self.name, v))
            object.__setattr__(self, k, v)

    class RecManager:
        def __init__(self, ref, itps):
            self.molecule_correspondence = {n: RecAlignment(n) for n in ('XMOL', 'YMOL')}

        @classmethod
        def from_files(cls, ref, *itps):
            trace.append(('Manager.from_files', ref, tuple(itps)))
            return cls(ref, itps)

        def align_molecules(self, *a, **k):
            trace.append(('align_molecules', a, tuple(sorted(k.items()))))

        def calculate_exchange_maps(self, *a, **k):
            trace.append(('calculate_exchange_maps', a, tuple(sorted(k.items()))))

        def extrapolate_system(self, path):
            trace.append(('extrapolate_system', path))
    saved = (gaddlemaps.Manager, parsers.read_topology, comps.Molecule.from_files)
    names = {'x_cg.itp': 'XMOL', 'y_cg.itp': 'YMOL'}
    gaddlemaps.Manager = RecManager
    parsers.read_topology = lambda f, **k: (trace.append(('read_topology', f)) or (names[os.path.basename(f)], [], []))
    comps.Molecule.from_files = classmethod(lambda cls, g, t: (trace.append(('Molecule.from_files', g, t)) or ('END', g, t)))
    try:
        scale = SymReal(z3.Real('scale'))          # opaque symbolic value: must reach calculate_exchange_maps untouched
        for outfile, species in ((None, [['d/x_cg.itp', 'd/x_aa.gro', 'd/x_aa.itp']]),
                                 ('res/out.gro', [['d/x_cg.itp', 'd/x_aa.gro', 'd/x_aa.itp'], ['d/y_cg.itp', 'e/y_aa.gro', 'e/y_aa.itp']]),
                                 (None, [['d/y_cg.itp', 'e/y_aa.gro', 'e/y_aa.itp'], ['d/x_cg.itp', 'd/x_aa.gro', 'd/x_aa.itp']])):
            del trace[:]
            cli.auto_map('some/dir/system.gro', species, scale=scale, outfile=outfile)
            want = []
            for sp in species:
                want += [('read_topology', sp[0]), ('Molecule.from_files', sp[1], sp[2])]
            want.append(('Manager.from_files', 'some/dir/system.gro', tuple(sp[0] for sp in species)))
            want += [('attach_end', names[os.path.basename(sp[0])], ('END', sp[1], sp[2])) for sp in species]
            want += [('align_molecules', (), ()), ('calculate_exchange_maps', (), (('scale_factor', scale),)),
                     ('extrapolate_system', outfile if outfile else os.path.join('some/dir', 'mapped_system.gro'))]
            ok = len(trace) == len(want) and all((a == b) if not any(x is scale for x in (a[-1] if isinstance(a[-1], tuple) else ())) else True for a, b in zip(trace, want))
            # the scale must arrive as the very same symbolic object
            cem = [t for t in trace if t[0] == 'calculate_exchange_maps']
            ok = ok and len(cem) == 1 and dict(cem[0][2]).get('scale_factor') is scale and [t[0] for t in trace] == [w[0] for w in want]
            ok = ok and all(t == w for t, w in zip(trace, want) if t[0] != 'calculate_exchange_maps')
            tag = 'auto_map(%d species, outfile=%r)' % (len(species), outfile)
            rec = {'name': tag + ': call trace = library workflow (load, attach ends, align, maps(scale), extrapolate to the right path)', 'status': 'unsat' if ok else 'sat', 'secs': 0}
            if not ok:
                rec['witness'] = {'kind': 'workflow', 'what': 'trace %r' % ([t[:2] for t in trace],)}
            records.append(rec)
            nontrivial.append(tag)
    finally:
        gaddlemaps.Manager, parsers.read_topology = saved[0], saved[1]
        comps.Molecule.from_files = saved[2]
    return {'records': records, 'paths': len(nontrivial), 'queries': 0, 'solver_s': 0, 'samples': [{'workflow': 'auto_map'}], 'nontrivial': nontrivial}


def replay(w):
    """Concrete: the real sort_molecules on files on disk, with the candidate list in several orders (the builtin set)."""
    import tempfile
    import shutil
    import random
    if w['kind'] == 'workflow':
        out = _workflow()
        bad = [r['name'] for r in out['records'] if r['status'] == 'sat']
        return {'reproduced': bool(bad), 'what': 'auto_map: ' + '; '.join(bad)[:300], 'detail': {}}
    import gaddlemaps._cli as cli
    scenario = w['scenario']
    d = tempfile.mkdtemp(prefix='c20r-')
    try:
        files = _write_files(d)
        exp = _expected(files, scenario)
        cand, known, want = SCENARIOS[scenario]
        known_files = _known(files, known)
        bad = []
        rnd = random.Random(0)
        import warnings
        for _ in range(6):
            lst = [files[c] for c in cand]
            rnd.shuffle(lst)
            try:
                with warnings.catch_warnings():
                    warnings.simplefilter('ignore')
                    got = cli.sort_molecules(files['system.gro'], lst, known_files)
                if got != exp:
                    bad.append('wrong assignment %r' % ({k: sorted(os.path.basename(x) for x in v.values()) for k, v in got.items()},))
            except Exception as e:
                bad.append('sort_molecules raised %s: %s' % (type(e).__name__, e))
        bad = sorted(set(bad))[:2]
        return {'reproduced': bool(bad), 'what': 'automatic discovery (%s): %s' % (scenario, '; '.join(bad)), 'detail': {}}
    finally:
        shutil.rmtree(d, ignore_errors=True)
