"""C16 - ItpFile read-write-read loses no section, line or comment.
CrossHair on the real ItpLine / ItpSection with symbolic lines; real ItpFile write / re-read for every section-name
sequence within the bound (symbolic choice integers); the 16 shipped topologies as translator validation."""
import itertools
import os
import z3

ID = 'C16'
FUNCTIONS = ['gaddlemaps.parsers._itp_parse:ItpFile.__init__', 'gaddlemaps.parsers._itp_parse:ItpFile.write',
             'gaddlemaps.parsers._itp_parse:ItpSection.append', 'gaddlemaps.parsers._itp_parse:ItpSection.__str__',
             'gaddlemaps.parsers._itp_parse:ItpLine.__init__', 'gaddlemaps.parsers._itp_parse:ItpLine.line',
             'gaddlemaps.parsers._itp_parse:ItpLine.parse_itp_line']
EXPLANATION = ('L1/L2: CrossHair executes the real ItpLine and ItpSection on symbolic lines (<= 5 characters over the alphabet '
               '{a, 1, blank, tab, ;, #}) and compares first parse, written form and re-parse with an independent 12-line reference '
               'reading of the raw line (kind, content tokens, comment).  L3: for every sequence of up to 4 section headers over two '
               'names (symbolic choice integers, incl. repeated names) and every assignment of line templates (content with no / empty / '
               'multiple trailing comments, comment-only, commented-out directive, blank, directive) the real ItpFile reads an in-memory file, '
               'writes it, re-reads and writes again; sections in order of first appearance, content tokens, comments and directives in the '
               'same relative positions are compared with the reference reading of the ORIGINAL text; the second write must equal the first.  '
               'The 16 shipped topologies go through the same comparison (translator validation of the reference reader).')
BOUNDS = {'quick': {'lines': '<= 5 symbolic characters (CrossHair, 60 s each)', 'files': '<= 3 sections over names {a, b}, 2 line templates per section out of 9'},
          'thorough': {'lines': 'CrossHair 300 s each', 'files': '<= 3 sections with 3 line templates per section out of 9; 4 sections with 2'}}
OUTSIDE = ['lines longer than 5 symbolic characters', 'sections other than generic ones in L3 (atoms / bonds lines are covered by the shipped files only)',
           'blank lines are not preserved by the writer (the statement speaks of content, comment and preprocessor lines)']
STUBS = ['in-memory file for reading; writing goes to a temporary file (ItpFile.write takes a path)']
ASSUMPTIONS = ['a directive is a line whose first character is #; a comment line starts with ;']
CASE_TIMEOUT = {'quick': 600, 'thorough': 2400}

TEMPLATES = ['x 1 2\n', 'x 1 ; note\n', 'x 1;\n', 'x ; a ; b\n', '; only comment\n', ';#include "f.itp"\n', '\n', '#ifdef FLEX\n', 'y 2 ;#tag\n']


def cases(tier):
    b = 60 if tier == 'quick' else 300
    cs = [{'name': 'crosshair/line_roundtrip', 'fn': 'line_roundtrip', 'budget': b},
          {'name': 'crosshair/section_roundtrip', 'fn': 'section_roundtrip', 'budget': b}]
    for nsec in range(1, 4):
        cs.append({'name': 'files/%d-sections' % nsec, 'nsec': nsec, 'nlines': 2 if tier == 'quick' else 3})
    if tier != 'quick':
        # 4 headers x 3 templates is 46656 files (> 30 min of path re-execution): 4 headers are explored with 2 templates
        cs.append({'name': 'files/4-sections', 'nsec': 4, 'nlines': 2})
    cs.append({'name': 'shipped-topologies'})
    return cs


def reference_read(text):
    """independent reading of a whole .itp text -> (header entries, ordered dict section -> entries); blank lines dropped"""
    from chx.c16 import classify, _norm
    import re
    header, sections, order, cur = [], {}, [], None
    for raw in text.splitlines(True):
        if re.match(r'\[.*\]', raw.strip()):
            cur = re.findall(r'\[(.*)\]', raw)[0].strip()
            if cur not in sections:
                sections[cur] = []
                order.append(cur)
            continue
        c = classify(raw)
        if c[0] == 'blank':
            continue
        (header if cur is None else sections[cur]).append(_norm(c))
    return header, [(k, sections[k]) for k in order]


def parsed_read(itp):
    from chx.c16 import classify_parsed, classify, _norm
    header = [_norm(classify(l)) for l in itp['header'] if classify(l)[0] != 'blank']
    secs = []
    for k, sec in itp.items():
        if k == 'header':
            continue
        secs.append((k, [_norm(classify_parsed(l, l.line)) for l in sec.lines if classify_parsed(l, l.line)[0] != 'blank']))
    return header, secs


def roundtrip_text(text, name='t.itp'):
    """-> (problems, written1, written2)"""
    import tempfile
    from symx.files import MemFile
    from gaddlemaps.parsers import ItpFile
    want = reference_read(text)
    d = tempfile.mkdtemp(prefix='c16-')
    p1, p2 = os.path.join(d, 'w1.itp'), os.path.join(d, 'w2.itp')
    problems = []
    try:
        a = ItpFile(MemFile(text, name))
        if parsed_read(a) != want:
            problems.append('first parse differs from the file: %s' % _diff(parsed_read(a), want))
        a.write(p1)
        # ItpFile.write leaves its handle to the garbage collector: make sure the data is on disk
        import gc; gc.collect()
        w1 = open(p1).read()
        b = ItpFile(p1)
        if parsed_read(b) != want:
            problems.append('re-read of the written file differs from the original: %s' % _diff(parsed_read(b), want))
        b.write(p2)
        gc.collect()
        w2 = open(p2).read()
        if reference_read(w2) != reference_read(w1):
            problems.append('second write is not stable')
        return problems, w1, w2
    finally:
        for p in (p1, p2):
            try:
                os.remove(p)
            except OSError:
                pass
        os.rmdir(d)


def _diff(got, want):
    gh, gs = got
    wh, ws = want
    if gh != wh:
        return 'header %r vs %r' % (gh, wh)
    if [k for k, _ in gs] != [k for k, _ in ws]:
        return 'sections %r vs %r' % ([k for k, _ in gs], [k for k, _ in ws])
    for (k, g), (_, w) in zip(gs, ws):
        if g != w:
            return 'section %s: %r vs %r' % (k, g[:6], w[:6])
    return 'unknown'


def run_case(case):
    nm = case['name']
    if nm.startswith('crosshair/'):
        from symx.chrun import run_crosshair
        return run_crosshair('chx/c16.py', case['fn'], case['budget'], kind='c16')
    records, samples, nontrivial = [], [], []
    if nm == 'shipped-topologies':
        import gaddlemaps
        files = sorted(f for f in gaddlemaps.DATA_FILES_PATH if f.endswith('.itp'))
        for f in files:
            text = open(gaddlemaps.DATA_FILES_PATH[f]).read()
            problems, w1, w2 = roundtrip_text(text, f)
            rec = {'name': '%s: read-write-read keeps every section, content line, comment and directive; second write stable' % f,
                   'status': 'unsat' if not problems else 'sat', 'secs': 0}
            if problems:
                rec['witness'] = {'kind': 'shipped', 'file': f, 'problems': problems[:2]}
            records.append(rec)
            nontrivial.append(f)
        samples.append({'files': files})
        return {'records': records, 'paths': len(files), 'queries': 0, 'solver_s': 0, 'samples': samples, 'nontrivial': nontrivial}
    # L3: section-name sequences and line templates chosen by symbolic integers
    from symx.core import explore, SymInt
    nsec, nlines = case['nsec'], case['nlines']
    names = ['a', 'b']
    sv = [z3.Int('sec%d' % i) for i in range(nsec)]
    tv = [z3.Int('tpl%d' % i) for i in range(nlines)]
    hv = z3.Int('header')
    nv = z3.Int('final_newline')
    paths = 0
    bad = None

    def run(ctx):
        ctx.assume(z3.And(hv >= 0, hv <= 1))
        seq = []
        for i in range(nsec):
            ctx.assume(z3.And(sv[i] >= 0, sv[i] < 2))
            seq.append(names[SymInt(sv[i], 0, 1).concretize()])
        tpl = []
        for i in range(nlines):
            ctx.assume(z3.And(tv[i] >= 0, tv[i] < len(TEMPLATES)))
            tpl.append(SymInt(tv[i], 0, len(TEMPLATES) - 1).concretize())
        head = SymInt(hv, 0, 1).concretize()
        ctx.assume(z3.And(nv >= 0, nv <= 1))
        final_nl = SymInt(nv, 0, 1).concretize()
        text = '; header comment\n#define X\n' if head else ''
        for si, s in enumerate(seq):
            text += '[ %s ]\n' % s
            for li, t in enumerate(tpl):
                text += TEMPLATES[(t + si) % len(TEMPLATES)].replace('x', 'x%d' % si)
        if not final_nl:
            text = text.rstrip('\n')            # the last line of the file has no line break
        return text, seq
    cover = []
    for ctx, res, exc in explore(run, max_paths=60000):
        paths += 1
        cover.append(z3.And(*ctx.pc) if ctx.pc else z3.BoolVal(True))
        if res is None:
            bad = bad or {'text': None, 'problems': ['abort %r' % (exc,)]}
            continue
        text, seq = res
        try:
            problems, w1, w2 = roundtrip_text(text)
        except Exception as e:
            problems = ['%s: %s' % (type(e).__name__, e)]
        if problems and bad is None:
            bad = {'text': text, 'problems': problems[:2]}
        if len(samples) < 2:
            samples.append({'sections': seq, 'text': text[:160]})
    rec = {'name': 'every file with %d section header(s) over {a,b} and %d line template(s) per section: nothing lost, second write stable (%d files)' % (nsec, nlines, paths),
           'status': 'unsat' if bad is None else 'sat', 'secs': 0}
    if bad is not None:
        rec['witness'] = {'kind': 'file', **bad}
    records.append(rec)
    nontrivial.append('files%d' % nsec)
    s = z3.Solver(); s.set('timeout', 60000)
    s.add(hv >= 0, hv <= 1, nv >= 0, nv <= 1, *[z3.And(v >= 0, v < 2) for v in sv], *[z3.And(v >= 0, v < len(TEMPLATES)) for v in tv])
    s.add(z3.Not(z3.Or(*cover)))
    r = str(s.check())
    records.append({'name': 'explored paths exhaust the symbolic section-name / template choices', 'status': 'unsat' if r == 'unsat' else 'unknown', 'secs': 0})
    records.append({'name': 'reachability-twin', 'status': 'twin', 'secs': 0})
    return {'records': records, 'paths': paths, 'queries': 1, 'solver_s': 0, 'samples': samples, 'nontrivial': nontrivial}


def replay(w):
    if w['kind'] == 'c16':
        from symx.chrun import replay_crosshair
        return replay_crosshair(w)
    if w['kind'] == 'shipped':
        import gaddlemaps
        text = open(gaddlemaps.DATA_FILES_PATH[w['file']]).read()
        label = 'shipped topology %s' % w['file']
    else:
        text = w['text']
        label = 'generated topology %r' % text[:80]
    problems, w1, w2 = roundtrip_text(text)
    return {'reproduced': bool(problems), 'what': 'ItpFile round trip of %s: %s' % (label, '; '.join(problems)[:300]), 'detail': {'written': w1[:300]}}
