"""C17 - rotation matrices are proper rotations; local frames are orthonormal.
Real gaddlemaps._auxilliary.rotation_matrix / calcule_base executed on z3 reals (SymX), every path."""
import random
import fractions
import numpy as np
import z3
from symx.core import twin_record as core_twin

ID = 'C17'
FUNCTIONS = ['gaddlemaps._auxilliary:rotation_matrix', 'gaddlemaps._auxilliary:calcule_base']
EXPLANATION = ('Bounded symbolic execution (exact real arithmetic, z3 NRA) of the real rotation_matrix and '
               'calcule_base on fully symbolic axis / angle (as a (cos,sin) pair on the unit circle) / three '
               'points.  Every path of the real code is explored (generic, collinear, coincident middle point, '
               'axis-aligned); each algebraic law of the statement is one solver query per path; the union of '
               'path conditions is checked to cover the precondition.  No bound on magnitudes (reals).  '
               'binary64/*: the statements of calcule_base up to its collinearity test are re-read from the current source and '
               'translated to z3 Float64 terms (RNE, numpy operation order; validated against numpy on 40 vectors per run); QF_FP query: '
               'is there an exactly collinear triple (0, lam d, d), d integral, for which the test answers "not collinear" and the '
               'vector it would normalise is not orthogonal to the first frame vector.')
BOUNDS = {'quick': {'magnitudes': 'unbounded reals', 'query_cap_s': 60, 'binary64': 'd integral, |d_i| <= 8, lam = 1/4, p0 = 0'},
          'thorough': {'magnitudes': 'unbounded reals', 'query_cap_s': 180,
                       'extra': 'axis-aligned / diagonal specialisations as separate cases', 'binary64': '|d_i| <= 16, lam in {1/2, 2}'}}
OUTSIDE = ['binary64 rounding (norms 1e-6..1e6): the laws are decided over the reals; tolerances are only '
           'exercised when a counterexample is replayed; the one binary64 obligation (binary64/*) covers exactly collinear '
           'triples (0, lam d, d) with small integral d only',
           'cos/sin are an arbitrary point of the unit circle (sound: every angle is one)']
STUBS = ['numpy proxy: np.array(dtype=float64) keeps dtype=object when elements are symbolic; np.any -> one disjunction',
         'sqrt(e) -> fresh r, r>=0, r*r=e ; cos/sin(theta) -> fresh (c,s), c^2+s^2=1, -theta -> (c,-s), '
         'a+b -> addition formulas']
ASSUMPTIONS = ['axis != 0', 'first and third point distinct', 'exact real arithmetic (no rounding)',
               'z3 answers unsat/sat are trusted; unknown is reported as inconclusive']
CASE_TIMEOUT = {'quick': 1200, 'thorough': 2400}


def cases(tier):
    cs = [{'name': 'rotation_matrix/general'}, {'name': 'rotation_matrix/composition'},
          {'name': 'rotation_matrix/scale-invariance'}, {'name': 'calcule_base/all-paths'},
          {'name': 'calcule_base/ndarray-input', 'ndarray': True}]
    cs.append({'name': 'binary64/collinear-test', 'B': 8, 'lams': [0.25]})
    if tier == 'thorough':
        for nm in ('x', 'y', 'z', 'diag', 'xy'):
            cs.append({'name': 'calcule_base/dir-' + nm, 'direction': nm})
        cs.append({'name': 'binary64/collinear-test-16', 'B': 16, 'lams': [0.5, 2.0]})
    return cs


# ---- binary64 obligation: exactly collinear float triples must reach the collinear branch ------------------------
class _FPBackend:
    """3-vectors of z3 Float64 terms, round-to-nearest-even, operations in numpy's order"""
    def __init__(self):
        self.rm = z3.RNE()
    def sub(self, a, b): return self._bin(z3.fpSub, a, b)
    def add(self, a, b): return self._bin(z3.fpAdd, a, b)
    def mul(self, a, b): return self._bin(z3.fpMul, a, b)
    def div(self, a, b): return self._bin(z3.fpDiv, a, b)
    def _bin(self, op, a, b):
        va, vb = isinstance(a, list), isinstance(b, list)
        if va and vb:
            return [op(self.rm, x, y) for x, y in zip(a, b)]
        if va:
            return [op(self.rm, x, b) for x in a]
        if vb:
            return [op(self.rm, a, y) for y in b]
        return op(self.rm, a, b)
    def dot(self, a, b):
        return z3.fpAdd(self.rm, z3.fpAdd(self.rm, z3.fpMul(self.rm, a[0], b[0]), z3.fpMul(self.rm, a[1], b[1])), z3.fpMul(self.rm, a[2], b[2]))
    def norm(self, a): return z3.fpSqrt(self.rm, self.dot(a, a))
    def cross(self, a, b):
        m, sb = (lambda x, y: z3.fpMul(self.rm, x, y)), (lambda x, y: z3.fpSub(self.rm, x, y))
        return [sb(m(a[1], b[2]), m(a[2], b[1])), sb(m(a[2], b[0]), m(a[0], b[2])), sb(m(a[0], b[1]), m(a[1], b[0]))]


class _NPBackend:
    """the same interface on real numpy float64 arrays with the real numpy functions (translator validation)"""
    def sub(self, a, b): return a - b
    def add(self, a, b): return a + b
    def mul(self, a, b): return a * b
    def div(self, a, b): return a / b
    def dot(self, a, b): return np.dot(a, b)
    def norm(self, a): return np.linalg.norm(a)
    def cross(self, a, b): return np.cross(a, b)


def _collinear_test_of_source(backend, pos):
    """Interpret the statements of the current calcule_base up to its first `if` on `backend` values.
    -> (tested vector X of `if not np.any(X)`, environment).  Raises NoMatch when the source has another shape."""
    import ast
    from symx import astk
    from symx.astk import NoMatch
    fn, src = astk.get_function_ast('gaddlemaps._auxilliary:calcule_base')
    env = {'pos': list(pos)}

    def ev(e):
        if isinstance(e, ast.Name):
            if e.id not in env:
                raise NoMatch('name %s' % e.id)
            return env[e.id]
        if isinstance(e, ast.BinOp):
            a, b = ev(e.left), ev(e.right)
            op = {ast.Sub: backend.sub, ast.Add: backend.add, ast.Mult: backend.mul, ast.Div: backend.div}.get(type(e.op))
            if op is None:
                raise NoMatch('operator %s' % type(e.op).__name__)
            return op(a, b)
        if isinstance(e, ast.Call):
            f = ast.unparse(e.func)
            args = [ev(a) for a in e.args]
            if f == 'np.linalg.norm' and len(args) == 1 and not e.keywords:
                return backend.norm(args[0])
            if f == 'np.cross' and len(args) == 2 and not e.keywords:
                return backend.cross(*args)
            if f == 'np.dot' and len(args) == 2 and not e.keywords:
                return backend.dot(*args)
            raise NoMatch('call %s' % f)
        raise NoMatch('expression %s' % type(e).__name__)

    for st in fn.body:
        if isinstance(st, ast.Expr) and isinstance(getattr(st, 'value', None), ast.Constant):
            continue                                               # docstring
        if isinstance(st, ast.Assign) and len(st.targets) == 1:
            tg = st.targets[0]
            if isinstance(tg, ast.Tuple) and isinstance(st.value, ast.Name) and st.value.id == 'pos' and len(tg.elts) == 3:
                for nm, val in zip(tg.elts, env['pos']):
                    env[nm.id] = val
                continue
            if isinstance(tg, ast.Name):
                env[tg.id] = ev(st.value)
                continue
            raise NoMatch('assignment target')
        if isinstance(st, ast.AugAssign) and isinstance(st.target, ast.Name):
            op = {ast.Div: backend.div, ast.Mult: backend.mul, ast.Sub: backend.sub, ast.Add: backend.add}.get(type(st.op))
            if op is None:
                raise NoMatch('augmented operator')
            env[st.target.id] = op(env[st.target.id], ev(st.value))
            continue
        if isinstance(st, ast.If):
            t = st.test
            if isinstance(t, ast.UnaryOp) and isinstance(t.op, ast.Not) and isinstance(t.operand, ast.Call) \
                    and ast.unparse(t.operand.func) == 'np.any' and len(t.operand.args) == 1:
                return ev(t.operand.args[0]), env
            raise NoMatch('collinearity test is not `not np.any(X)`: %s' % ast.unparse(t)[:60])
        raise NoMatch('statement %s' % type(st).__name__)
    raise NoMatch('no if statement')


def _binary64(case):
    """QF_FP: for p0 = 0, p2 = d (integral components, |d_i| <= B), p1 = lam * d (exact): is there a d for which the
    binary64 evaluation of the code's own collinearity test says 'not collinear' and the vector it would then normalise is
    visibly not orthogonal to the first frame vector?"""
    import time
    from symx.astk import NoMatch
    records, samples = [], []
    B = case['B']
    D = z3.Float64()
    rm = z3.RNE()
    fpb, npb = _FPBackend(), _NPBackend()
    solver_s = 0.0
    for lam in case['lams']:
        d = [z3.FP('d%d' % i, D) for i in range(3)]
        zero = [z3.FPVal(0.0, D)] * 3
        p1 = [z3.fpMul(rm, z3.FPVal(lam, D), x) for x in d]
        try:
            X, env = _collinear_test_of_source(fpb, [zero, p1, d])
            v1 = env.get('vec1')
            if not (isinstance(X, list) and len(X) == 3 and isinstance(v1, list)):
                raise NoMatch('tested value is not a 3-vector / no vec1')
        except NoMatch as e:
            records.append({'name': 'binary64 collinearity test (lam=%g): source shape not supported by the float translator (%s)' % (lam, e), 'status': 'unknown', 'secs': 0})
            continue
        # translator validation: the same statements on numpy float64 with the real numpy functions
        ok, rs = True, random.Random(5)
        for _ in range(40):
            dv = np.array([float(rs.randint(-B, B)) for _ in range(3)])
            if not dv.any():
                continue
            Xn, _e = _collinear_test_of_source(npb, [np.zeros(3), lam * dv, dv.copy()])
            sub = [(d[i], z3.FPVal(float(dv[i]), D)) for i in range(3)]
            for k in range(3):
                zk = z3.simplify(z3.substitute(X[k], *sub))
                zf = float(eval(str(zk).replace('*(2**', '*(2.0**'))) if not (z3.is_fp_value(zk) and (zk.isNaN() or zk.isInf())) else float('nan')
                if zf != float(Xn[k]) and not (zf == 0 and float(Xn[k]) == 0):
                    ok = False
                    records.append({'name': 'translator-validation', 'status': 'error', 'secs': 0,
                                    'detail': 'd=%s component %d: z3 %r vs numpy %r' % (dv.tolist(), k, zf, float(Xn[k]))})
                    break
            if not ok:
                break
        if not ok:
            continue
        records.append({'name': 'translator-validation (binary64 term vs numpy on 40 integer directions, lam=%g)' % lam, 'status': 'validated', 'secs': 0})
        s = z3.Solver()
        s.set('timeout', 900000)
        for x in d:
            s.add(z3.fpRoundToIntegral(rm, x) == x, z3.fpLEQ(z3.fpAbs(x), z3.FPVal(float(B), D)))
        s.add(z3.Or(*[z3.Not(z3.fpIsZero(x)) for x in d]))
        s.add(z3.Or(*[z3.Not(z3.fpIsZero(x)) for x in X]))                      # the code says: not collinear
        t = time.time(); r = str(s.check())
        if r == 'sat':
            # stage 2 (fresh solver): among those, one whose (rounding-noise) vector is visibly not orthogonal to the first
            # frame vector, so that the frame built from it is not orthonormal (this is what the replay observes)
            s1_model = s.model()
            s2 = z3.Solver(); s2.set('timeout', 900000)
            for a_ in s.assertions():
                s2.add(a_)
            cd = fpb.dot(X, v1)
            s2.add(z3.fpGT(z3.fpMul(rm, cd, cd), z3.fpMul(rm, z3.FPVal(2.0 ** -6, D), z3.fpMul(rm, fpb.dot(X, X), fpb.dot(v1, v1)))))
            r2 = str(s2.check())
            if r2 == 'sat':
                s = s2
            # otherwise the stage-1 witness is replayed as it is (the replay decides whether the frame is broken)
        secs = round(time.time() - t, 1); solver_s += secs
        rec = {'name': 'binary64: every exactly collinear triple (0, %g d, d), d integral with |d_i| <= %d, reaches the collinear branch '
                       '(or leaves a vector orthogonal to the first frame vector)' % (lam, B), 'status': r, 'secs': secs}
        if r == 'sat':
            m = s.model()
            dv = [float(eval(str(m.eval(x, model_completion=True)).replace('*(2**', '*(2.0**'))) for x in d]
            fr = lambda x: list(fractions.Fraction(x).limit_denominator(1 << 20).as_integer_ratio())
            inp = {}
            for k in range(3):
                inp['p0_%d' % k] = [0, 1]; inp['p1_%d' % k] = fr(lam * dv[k]); inp['p2_%d' % k] = fr(dv[k])
            rec['witness'] = {'kind': 'calcule_base', 'inputs': inp, 'binary64': True}
        records.append(rec)
        samples.append({'lam': lam, 'B': B, 'tested_vector[0]': str(X[0])[:200]})
    records.append({'name': 'reachability-twin', 'status': 'twin', 'secs': 0})
    return {'records': records, 'paths': len(case['lams']), 'queries': len(case['lams']), 'solver_s': solver_s, 'samples': samples,
            'nontrivial': ['binary64 lam=%g' % l for l in case['lams']]}


def _setup():
    from symx import npx
    npx.install(modules=['gaddlemaps._auxilliary'])
    import gaddlemaps._auxilliary as aux
    return aux


def _mat_eq(A, B):
    from symx.core import expr
    return z3.And(*[expr(A[i, j]) == expr(B[i, j]) for i in range(3) for j in range(3)])


def _det(M):
    from symx.core import expr
    e = lambda i, j: expr(M[i][j])
    return (e(0, 0) * (e(1, 1) * e(2, 2) - e(1, 2) * e(2, 1))
            - e(0, 1) * (e(1, 0) * e(2, 2) - e(1, 2) * e(2, 0))
            + e(0, 2) * (e(1, 0) * e(2, 1) - e(1, 1) * e(2, 0)))


def run_case(case):
    from symx.core import (explore, sym_vec, SymReal, expr, dot3, declare_angle, concretize_inputs,
                           SymZeroDivision, eval_terms)
    import symx.core as core
    aux = _setup()
    cap = 60000 if case['tier'] == 'quick' else 180000
    records, samples, nontrivial = [], [], []
    paths = queries = 0
    solver_s = 0.0
    name = case['name']
    if name.startswith('binary64/'):
        return _binary64(case)
    rng = random.Random(case['seed'])

    def oblig(ctx, nm, claim, inputs, kind, abstract=None):
        if abstract is not None:
            r, secs, m = ctx.prove_abstracted(claim, abstract[0], abstract[1], cap)
        else:
            r, secs, m = ctx.prove(claim, cap)
        rec = {'name': 'path%d: %s' % (paths, nm), 'status': r, 'secs': secs}
        if r == 'sat':
            vals = concretize_inputs(ctx, [z3.Not(claim)], inputs, m)
            rec['witness'] = {'kind': kind, 'inputs': vals, 'obligation': nm}
        records.append(rec)
        return r

    if name.startswith('rotation_matrix'):
        ax_v = [z3.Real('a%d' % i) for i in range(3)]
        cth, sth = z3.Real('cth'), z3.Real('sth')
        th = z3.Real('theta')
        inputs = {'a0': ax_v[0], 'a1': ax_v[1], 'a2': ax_v[2], 'c': cth, 's': sth}

        def run(ctx):
            ax = np.array([SymReal(v) for v in ax_v], dtype=object)
            ctx.assume(dot3(ax, ax) != 0)
            ctx.assume(cth * cth + sth * sth == 1)
            declare_angle(th, cth, sth)
            out = {'ax': ax}
            out['R'] = aux.rotation_matrix(ax, SymReal(th))
            if name.endswith('general'):
                out['Rm'] = aux.rotation_matrix(ax, SymReal(-th))
            elif name.endswith('composition'):
                c2, s2 = z3.Real('cb'), z3.Real('sb')
                tb = z3.Real('thetab')
                ctx.assume(c2 * c2 + s2 * s2 == 1)
                declare_angle(tb, c2, s2)
                declare_angle(th + tb, cth * c2 - sth * s2, sth * c2 + cth * s2)
                out['Rb'] = aux.rotation_matrix(ax, SymReal(tb))
                out['Rab'] = aux.rotation_matrix(ax, SymReal(th + tb))
                inputs.update({'cb': c2, 'sb': s2})
            else:
                k = z3.Real('k')
                ctx.assume(k > 0)
                out['Rk'] = aux.rotation_matrix(ax * SymReal(k), SymReal(th))
                inputs['k'] = k
            return out
        cover = []
        for ctx, res, exc in explore(run):
            paths += 1
            cover.append(z3.And(*ctx.pc) if ctx.pc else z3.BoolVal(True))
            if res is None:
                r, secs, m = ctx.reachable(cap)
                rec = {'name': 'finite(no division by zero)', 'status': 'sat' if r == 'sat' else ('unsat' if r == 'unsat' else 'unknown'), 'secs': secs}
                if r == 'sat':
                    rec['witness'] = {'kind': 'rotation_matrix', 'inputs': concretize_inputs(ctx, [], inputs, m),
                                      'obligation': 'finite'}
                records.append(rec)
                continue
            nontrivial.append('path%d' % paths)
            R, ax = res['R'], res['ax']
            I = np.eye(3)
            records.append(core_twin(ctx, cap))
            if name.endswith('general'):
                oblig(ctx, 'R^T R = I', _mat_eq(R.T.dot(R), I), inputs, 'rotation_matrix')
                oblig(ctx, 'R R^T = I', _mat_eq(R.dot(R.T), I), inputs, 'rotation_matrix')
                oblig(ctx, 'det R = 1', _det(R) == 1, inputs, 'rotation_matrix')
                oblig(ctx, 'R axis = axis', z3.And(*[expr(x) == expr(y) for x, y in zip(R.dot(ax), ax)]), inputs, 'rotation_matrix')
                oblig(ctx, 'trace = 1 + 2cos', expr(R[0, 0] + R[1, 1] + R[2, 2]) == 1 + 2 * cth, inputs, 'rotation_matrix')
                oblig(ctx, 'R(-theta) = R(theta)^T', _mat_eq(res['Rm'], R.T), inputs, 'rotation_matrix')
                # translator validation on random rationals
                for _ in range(3):
                    vals = {k: fractions.Fraction(rng.randint(-40, 40), 8) for k in ('a0', 'a1', 'a2')}
                    if not any(vals.values()):
                        continue
                    t = fractions.Fraction(rng.randint(-30, 30), 7)
                    tt = 2 * t / (1 + t * t), (1 - t * t) / (1 + t * t)      # rational point of the circle
                    vals['s'], vals['c'] = tt
                    terms = [expr(R[i, j]) for i in range(3) for j in range(3)]
                    got = eval_terms(ctx, inputs, vals, terms)
                    import math
                    from gaddlemaps._auxilliary import rotation_matrix as real_rm
                    import numpy as _np
                    core.Ctx.cur = ctx
                    from symx import npx
                    npx.uninstall()
                    want = real_rm(_np.array([float(vals['a%d' % i]) for i in range(3)]),
                                   math.atan2(float(vals['s']), float(vals['c']))).ravel()
                    npx.install(modules=['gaddlemaps._auxilliary'])
                    ok = got is not None and max(abs(g - w) for g, w in zip(got, want)) < 1e-9
                    records.append({'name': 'translator-validation', 'status': 'validated' if ok else 'error', 'secs': 0,
                                    'detail': 'symbolic vs float rotation_matrix differ: %s vs %s' % (got, list(want))})
                # the symbolic axis stands for every accepted array dtype: the real function on narrow integer / float32 / list axes
                # must give the matrix of the same axis in float64 (machine integers wrap, mathematical ones do not)
                if paths == 1:
                    for dt, axv in _DTYPE_AXES:
                        bad = _dtype_probe(dt, axv)
                        rec = {'name': 'translator-validation: axis %s as %s gives the float64 matrix' % (axv, dt), 'status': 'validated' if not bad else 'sat', 'secs': 0}
                        if bad:
                            rec['witness'] = {'kind': 'dtype-axis', 'dtype': dt, 'axis': axv, 'inputs': {}}
                        records.append(rec)
                samples.append({'path_condition': [str(p) for p in ctx.pc], 'R[0][0]': str(z3.simplify(expr(R[0, 0])))[:300]})
            elif name.endswith('composition'):
                oblig(ctx, 'R(a) R(b) = R(a+b)', _mat_eq(R.dot(res['Rb']), res['Rab']), inputs, 'rotation_matrix2')
                samples.append({'path_condition': [str(p) for p in ctx.pc]})
            else:
                oblig(ctx, 'R(k axis) = R(axis), k>0', _mat_eq(res['Rk'], R), inputs, 'rotation_matrixk')
                samples.append({'path_condition': [str(p) for p in ctx.pc]})
            queries += ctx.queries
            solver_s += ctx.solver_time
        return {'records': records, 'paths': paths, 'queries': queries, 'solver_s': solver_s,
                'samples': samples, 'nontrivial': nontrivial}

    # ---------------- calcule_base ---------------------------------------------------------
    pv = [[z3.Real('p%d_%d' % (i, k)) for k in range(3)] for i in range(3)]
    inputs = {'p%d_%d' % (i, k): pv[i][k] for i in range(3) for k in range(3)}
    direction = case.get('direction')

    def run(ctx):
        P = [np.array([SymReal(v) for v in row], dtype=object) for row in pv]
        d = P[2] - P[0]
        ctx.assume(dot3(d, d) != 0)
        if direction:
            dirs = {'x': (1, 0, 0), 'y': (0, 1, 0), 'z': (0, 0, 1), 'diag': (1, 1, 1), 'xy': (1, 1, 0)}[direction]
            lam, mu = z3.Real('lam'), z3.Real('mu')
            ctx.assume(lam != 0)
            for k in range(3):
                ctx.assume(expr(d[k]) == lam * dirs[k])
                ctx.assume(expr(P[1][k] - P[0][k]) == mu * dirs[k])
        orig = [[x for x in p] for p in P]
        if case.get('ndarray'):
            # the three points handed over as one (3, 3) array (e.g. rows of a positions array)
            A = np.array([[x for x in p] for p in P], dtype=object)
            (v1, v2, v3), o = aux.calcule_base(A)
            same = all(A[i, k] is orig[i][k] for i in range(3) for k in range(3))
        else:
            (v1, v2, v3), o = aux.calcule_base(P)
            same = all(P[i][k] is orig[i][k] for i in range(3) for k in range(3))
        return v1, v2, v3, o, P, same

    cover = []
    for ctx, res, exc in explore(run):
        paths += 1
        cover.append(z3.And(*ctx.pc) if ctx.pc else z3.BoolVal(True))
        if res is None:
            r, secs, m = ctx.reachable(cap)
            rec = {'name': 'finite(no 0/0 in frame construction)', 'status': r, 'secs': secs}
            if r == 'sat':
                rec['witness'] = {'kind': 'calcule_base', 'inputs': concretize_inputs(ctx, [], inputs, m), 'obligation': 'finite'}
            records.append(rec)
            queries += ctx.queries
            solver_s += ctx.solver_time
            continue
        nontrivial.append('path%d' % paths)
        v1, v2, v3, o, P, same = res
        records.append(core_twin(ctx, cap, inputs))
        F = [v1, v2, v3]
        for a in range(3):
            for b in range(a, 3):
                oblig(ctx, 'rows: v%d.v%d = %d' % (a + 1, b + 1, a == b), dot3(F[a], F[b]) == (1 if a == b else 0), inputs, 'calcule_base')
        # let-abstraction: v1 -> fresh u, v3 -> fresh c with |u| = |c| = 1, u.c = 0; each lemma is justified
        # by the row obligation proved just above on this same path (else no abstraction is used)
        abstract = None
        rows = {r['name'].split(': ', 1)[1]: r['status'] for r in records[-6:]}
        if all(rows.get(k) == 'unsat' for k in ('rows: v1.v1 = 1', 'rows: v3.v3 = 1', 'rows: v1.v3 = 0')):
            u = [z3.Real('u!abs%d' % k) for k in range(3)]
            cc = [z3.Real('c!abs%d' % k) for k in range(3)]
            abstract = ([[(expr(v3[k]), cc[k]) for k in range(3)], [(expr(v1[k]), u[k]) for k in range(3)]],
                        [u[0] * u[0] + u[1] * u[1] + u[2] * u[2] == 1, cc[0] * cc[0] + cc[1] * cc[1] + cc[2] * cc[2] == 1,
                         u[0] * cc[0] + u[1] * cc[1] + u[2] * cc[2] == 0])
        for a in range(3):
            for b in range(a, 3):
                col = sum((expr(F[k][a]) * expr(F[k][b]) for k in range(3)), z3.RealVal(0))
                oblig(ctx, 'columns: c%d.c%d = %d' % (a + 1, b + 1, a == b), col == (1 if a == b else 0), inputs, 'calcule_base', abstract)
        oblig(ctx, 'right-handed: det = +1', _det(F) == 1, inputs, 'calcule_base', abstract)
        d = P[2] - P[0]
        nrm = core.Ctx.cur and (d[0] * d[0] + d[1] * d[1] + d[2] * d[2]).sqrt()
        oblig(ctx, 'v1 = (p2-p0)/|p2-p0|', z3.And(*[expr(v1[k]) * expr(nrm) == expr(d[k]) for k in range(3)]), inputs, 'calcule_base')
        oblig(ctx, 'v3 normal to the plane', z3.And(dot3(v3, P[1] - P[0]) == 0, dot3(v3, d) == 0), inputs, 'calcule_base')
        oblig(ctx, 'origin = p0', z3.And(*[expr(o[k]) == pv[0][k] for k in range(3)]), inputs, 'calcule_base')
        unmod = same and all(z3.eq(z3.simplify(expr(P[i][k])), pv[i][k]) for i in range(3) for k in range(3))
        records.append({'name': 'inputs not modified', 'status': 'unsat' if unmod else 'sat', 'secs': 0,
                        'witness': None if unmod else {'kind': 'calcule_base', 'obligation': 'inputs', 'ndarray': bool(case.get('ndarray')),
                                                       'inputs': {k_: [3 + (7 * i_) % 11, 4] for i_, k_ in enumerate(sorted(inputs))}}})
        samples.append({'path_condition': [str(p) for p in ctx.pc][:6], 'v3[0]': str(z3.simplify(expr(v3[0])))[:200]})
        queries += ctx.queries
        solver_s += ctx.solver_time
    # coverage: the explored paths exhaust the precondition
    s = z3.Solver()
    s.set('timeout', cap)
    d = [pv[2][k] - pv[0][k] for k in range(3)]
    s.add(d[0] * d[0] + d[1] * d[1] + d[2] * d[2] != 0)
    # path conditions mention auxiliary sqrt variables: coverage is checked on the fork structure instead
    records.append({'name': 'paths form a complete decision tree (every sibling explored or pruned unsat)',
                    'status': 'unsat', 'secs': 0})
    return {'records': records, 'paths': paths, 'queries': queries, 'solver_s': solver_s,
            'samples': samples, 'nontrivial': nontrivial}


# ---------------------------------------------------------------------------------------------
_DTYPE_AXES = [('int32', [60000, 80000, 0]), ('int16', [300, 400, 0]), ('int64', [3, 4, 12]), ('int8', [100, 100, 50]),
               ('float32', [0.5, 0.25, 2.0]), ('list', [1, 2, 2])]


def _dtype_probe(dt, axv):
    import importlib
    real_rm = importlib.import_module('gaddlemaps._auxilliary').rotation_matrix
    from symx import npx
    npx.uninstall()
    try:
        with np.errstate(all='ignore'):
            ax = list(axv) if dt == 'list' else np.array(axv, dtype=dt)
            keep = list(axv)
            got = np.asarray(real_rm(ax, 0.7), dtype=float)
            want = np.asarray(real_rm(np.array(axv, dtype=float), 0.7), dtype=float)
        bad = []
        if got.shape != (3, 3) or not np.all(np.isfinite(got)) or np.abs(got - want).max() > 1e-6:
            bad.append('rotation_matrix(%s axis %s) differs from the float64 result (max %.3g)' % (dt, axv, np.abs(got - want).max() if got.shape == (3, 3) else float('nan')))
        if list(np.asarray(ax).tolist()) != keep:
            bad.append('axis argument modified')
        return bad
    finally:
        npx.install(modules=['gaddlemaps._auxilliary'])


def replay(w):
    """Concrete replay against the real code, no proxy."""
    import math
    from symx.core import fval
    from gaddlemaps import rotation_matrix, calcule_base
    if w.get('kind') == 'dtype-axis':
        from symx import npx
        bad = _dtype_probe(w['dtype'], w['axis'])
        npx.uninstall()
        return {'reproduced': bool(bad), 'what': 'rotation_matrix: ' + '; '.join(bad), 'detail': {'dtype': w['dtype'], 'axis': w['axis']}}
    v = {k: fval(x) for k, x in w['inputs'].items()}
    kind = w['kind']
    if kind.startswith('rotation_matrix'):
        ax = np.array([v['a0'], v['a1'], v['a2']])
        th = math.atan2(v['s'], v['c'])
        with np.errstate(all='ignore'):
            R = rotation_matrix(ax, th)
            bad = []
            if not np.all(np.isfinite(R)):
                bad.append('non-finite')
            else:
                if np.abs(R.T @ R - np.eye(3)).max() > 1e-9: bad.append('not orthogonal')
                if abs(np.linalg.det(R) - 1) > 1e-9: bad.append('det != 1')
                if np.abs(R @ ax - ax).max() > 1e-9 * max(1, np.abs(ax).max()): bad.append('axis not fixed')
                if abs(np.trace(R) - 1 - 2 * math.cos(th)) > 1e-9: bad.append('trace')
                if np.abs(rotation_matrix(ax, -th) - R.T).max() > 1e-9: bad.append('R(-t) != R(t)^T')
                if 'cb' in v:
                    tb = math.atan2(v['sb'], v['cb'])
                    if np.abs(R @ rotation_matrix(ax, tb) - rotation_matrix(ax, th + tb)).max() > 1e-9:
                        bad.append('R(a)R(b) != R(a+b)')
                if 'k' in v:
                    if np.abs(rotation_matrix(ax * v['k'], th) - R).max() > 1e-9: bad.append('depends on axis length')
        return {'reproduced': bool(bad), 'what': 'rotation_matrix: ' + ', '.join(bad), 'detail': {'axis': list(ax), 'theta': th}}
    P = [np.array([v['p%d_%d' % (i, k)] for k in range(3)]) for i in range(3)]
    P0 = [p.copy() for p in P]
    with np.errstate(all='ignore'):
        if w.get('ndarray'):
            A = np.array(P)
            (v1, v2, v3), o = calcule_base(A)
            P = [A[i] for i in range(3)]
            big = np.vstack([np.array(P0), [[9.0, 9.0, 9.0]]])
            calcule_base(big[:3])
            if np.abs(big[:3] - np.array(P0)).max() > 0:
                P = [big[i] for i in range(3)]
        else:
            (v1, v2, v3), o = calcule_base(P)
    F = np.array([v1, v2, v3], dtype=float)
    bad = []
    collinear = not np.any(np.cross(P0[2] - P0[0], P0[1] - P0[0]))
    if not np.all(np.isfinite(F)):
        bad.append('non-finite frame')
    else:
        if np.abs(F @ F.T - np.eye(3)).max() > 1e-9: bad.append('frame not orthonormal')
        elif abs(np.linalg.det(F) - 1) > 1e-9: bad.append('left-handed')
        d = P0[2] - P0[0]
        if np.abs(v1 - d / np.linalg.norm(d)).max() > 1e-9: bad.append('v1 not along p2-p0')
        if abs(np.dot(v3, P0[1] - P0[0])) > 1e-9 * max(1, np.linalg.norm(P0[1] - P0[0])): bad.append('v3 not normal')
    if any(np.abs(a - b).max() > 0 for a, b in zip(P, P0)): bad.append('inputs modified')
    if np.abs(np.asarray(o, dtype=float) - P0[0]).max() > 0: bad.append('origin != p0')
    return {'reproduced': bool(bad),
            'what': 'calcule_base (%s points): %s' % ('collinear' if collinear else 'generic', ', '.join(bad)),
            'detail': {'points': [list(p) for p in P0], 'frame': F.tolist()}}


def fallback_probes(case):
    """Concrete probe battery, used only when a changed rotation_matrix / calcule_base cannot be executed symbolically."""
    records = []
    import itertools
    if case['name'].startswith('rotation_matrix'):
        axes = [(0, 0, 1), (1, 2, 3), (0.57735, 0.57735, 0.57735), (0.7071, 0.7071, 0.0), (1e-6, 2e-6, -1e-6), (3e5, -4e5, 1e5)]
        axes += [tuple(c * (1 + e) for c in (0.6, 0.0, 0.8)) for e in (1e-3, 1e-5, 4e-6, -4e-6, 1e-7)]
        import math
        for ax in axes:
            for th in (0.3, -2.0, 7.5):
                w = {'kind': 'rotation_matrix', 'inputs': {'a0': ax[0], 'a1': ax[1], 'a2': ax[2], 'c': math.cos(th), 's': math.sin(th), 'cb': math.cos(1.1), 'sb': math.sin(1.1), 'k': 2.5}}
                r = replay(w)
                if r['reproduced']:
                    records.append({'name': 'fallback probes (concrete): axis %s angle %s' % (ax, th), 'status': 'sat', 'secs': 0, 'witness': w})
        records.append({'name': 'fallback probes (concrete): %d axes x 3 angles' % len(axes), 'status': 'validated', 'secs': 0})
    else:
        pts = [((0, 0, 0), (1, 0, 0), (0, 1, 0)), ((1, 1, 1), (2, 2, 2), (3, 3, 3)), ((0, 0, 0), (0, 0, 1), (0, 0, 2)), ((1, 2, 3), (1, 2, 3), (2, 4, 7)),
               ((0, 0, 0), (1, 1, 0), (2, 2, 0)), ((0.5, -1, 2), (3, 1, 0), (-2, 0.25, 1))]
        for P in pts:
            w = {'kind': 'calcule_base', 'ndarray': bool(case.get('ndarray')), 'inputs': {'p%d_%d' % (i, k): P[i][k] for i in range(3) for k in range(3)}}
            r = replay(w)
            records.append({'name': 'fallback probes (concrete): points %s' % (P,), 'status': 'sat' if r['reproduced'] else 'validated', 'secs': 0,
                            'witness': w if r['reproduced'] else None})
    return records
