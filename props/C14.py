"""C14 - incomplete or truncated .gro output is never accepted as a valid system.
Real GroFile reader on a file model whose end-of-file is a symbolic integer; writer crash points as prefixes of the
real writer's operation log."""
import z3
from symx.core import twin_record as core_twin

ID = 'C14'
FUNCTIONS = ['gaddlemaps.parsers:GroFile.__init__', 'gaddlemaps.parsers:GroFile._load_and_verify', 'gaddlemaps.parsers:GroFile._load_box_matrix',
             'gaddlemaps.parsers:GroFile.seek_atom', 'gaddlemaps.parsers:GroFile.readline', 'gaddlemaps.parsers:GroFile.readlines',
             'gaddlemaps.parsers:GroFile.parse_atomline', 'gaddlemaps.parsers:GroFile.determine_format', 'gaddlemaps.parsers:extract_lattice_gro',
             'gaddlemaps.parsers:GroFile.writeline', 'gaddlemaps.parsers:GroFile._setup_write_file', 'gaddlemaps.parsers:GroFile._write_closing_info']
EXPLANATION = ('The complete file is produced by the real writer (declared and deferred atom count, with/without velocities, 1..6 atoms).  '
               'The real reader (GroFile constructor + readlines) then runs on a file model whose end-of-file t is a symbolic integer in '
               '[0, len]: a read forks only on how t compares with the positions the reader actually looks at, so every byte-level '
               'truncation point is covered by a path (all positions between two looks are one path).  Per path: if the path condition '
               'allows t before the box line, the reader must have raised; an accepted file must return exactly the records of the complete '
               'file; the disjunction of all path conditions is proved to cover 0 <= t <= len (solver query).  Writer crash points: every '
               'prefix of the real writer\'s write/seek log (incl. between the steps of closing) is rebuilt and read concretely.')
BOUNDS = {'quick': {'atoms': '1, 2, 4', 'variants': 'count declared / deferred x velocities on / off', 'truncation': 'every byte position (symbolic)'},
          'thorough': {'atoms': '1..6 and 40', 'variants': 'as quick plus triclinic box and 4-decimal format'}}
OUTSIDE = ['files with thousands of atoms (the reader looks at the same five places whatever the size: probe 40 atoms)',
           'corruptions other than truncation (bit flips, inserted bytes)', 'a crash inside one write() call of the operating system (byte-level truncation covers the resulting contents)']
STUBS = ['file object -> SymEOFFile(content, t): readline / seek / tell / close / name / mode (GroFile officially accepts an opened file)']
ASSUMPTIONS = ['a truncated file is a prefix of the complete file', 'the reader uses the file only through readline/seek/tell']
CASE_TIMEOUT = {'quick': 600, 'thorough': 2400}


def _records(n, vel):
    recs = []
    for i in range(n):
        r = [1 + i // 2, 'RES' + 'AB'[(i // 2) % 2], 'C%d' % (i + 1), i + 1, 0.1 * i + 0.123, -1.5 + i, 2.0 + 0.001 * i]
        if vel:
            r += [0.01 * i, -0.02, 0.3]
        recs.append(r)
    return recs


def cases(tier):
    cs = []
    sizes = (1, 2, 4) if tier == 'quick' else (1, 2, 3, 4, 5, 6, 40)
    for n in sizes:
        for declare in (False, True):
            for vel in (False, True):
                if n == 40 and (declare or vel):
                    continue
                cs.append({'name': 'truncation/n%d/%s/%s' % (n, 'declared' if declare else 'deferred', 'vel' if vel else 'novel'),
                           'n': n, 'declare': declare, 'vel': vel, 'mode': 'trunc'})
    if tier == 'thorough':
        cs.append({'name': 'truncation/n3/triclinic', 'n': 3, 'declare': False, 'vel': False, 'mode': 'trunc', 'box': [[3, 0, 0], [0.5, 4, 0], [0.2, 0.3, 5]]})
        cs.append({'name': 'truncation/n3/4decimals', 'n': 3, 'declare': False, 'vel': True, 'mode': 'trunc', 'fmt': (9, 4)})
    for n in (1, 3):
        for eol in ('lf', 'crlf'):
            cs.append({'name': 'byte-truncation/%s/n%d' % (eol, n), 'n': n, 'declare': False, 'vel': n == 3, 'mode': 'bytes', 'eol': eol})
    cs.append({'name': 'byte-truncation/lf/n0', 'n': 0, 'declare': False, 'vel': False, 'mode': 'bytes', 'eol': 'lf'})
    cs.append({'name': 'byte-truncation/lf/n2/non-ascii-names', 'n': 2, 'declare': False, 'vel': False, 'mode': 'bytes', 'eol': 'lf', 'nonascii': True})
    for n in (1, 3):
        for declare in (False, True):
            cs.append({'name': 'writer-crash/n%d/%s' % (n, 'declared' if declare else 'deferred'), 'n': n, 'declare': declare, 'vel': n == 3, 'mode': 'crash'})
            cs.append({'name': 'writer-crash/n%d/%s/non-ascii-title' % (n, 'declared' if declare else 'deferred'), 'n': n, 'declare': declare, 'vel': n == 3,
                       'mode': 'crash', 'title': 'Jos\u00e9 25 \u00b0C \u00c5'})
    return cs


class AcceptedThenFailed(Exception):
    """the file was opened without error but reading its atoms failed"""


def _read_all(fobj):
    from gaddlemaps.parsers import GroFile
    g = GroFile(fobj)                  # opening must already reject an incomplete file
    try:
        recs = g.readlines()
    except Exception as e:
        raise AcceptedThenFailed('%s: %s' % (type(e).__name__, str(e)[:60]))
    return [tuple(r) for r in recs], g.natoms


def _disk_bytes(case, recs, box):
    """bytes of a complete file as another program may have written it: LF or CRLF line ends, optionally non-ASCII names"""
    from symx.files import write_gro_text
    if case.get('nonascii'):
        recs = [[r[0], 'R\u00e9S', 'C\u00c5' + str(i)] + list(r[3:]) for i, r in enumerate(recs)]
    if case['n'] == 0:
        # a system without atoms (the writer never produces one: hand-made, as other tools write it)
        text = 'title\n    0\n   3.00000   4.00000   5.00000\n'
    else:
        text = write_gro_text(recs, box=box, declare=False, comment='title')
    if case.get('eol') == 'crlf':
        text = text.replace('\n', '\r\n')
    return text.encode('utf-8')


def _read_bytes(data, t):
    import os, tempfile
    d = tempfile.mkdtemp(prefix='c14b-')
    pth = os.path.join(d, 'partial.gro')
    try:
        with open(pth, 'wb') as fh:
            fh.write(data[:t])
        return _read_all(pth)
    finally:
        try:
            os.remove(pth)
        except OSError:
            pass
        os.rmdir(d)


def _byte_truncation(case, recs, box):
    """real files on disk, truncation byte symbolic: one path per value, coverage of 0..len proved"""
    from symx.core import explore, SymInt
    data = _disk_bytes(case, recs, box)
    try:
        full, _ = _read_bytes(data, len(data))
    except Exception:
        full = None                                       # e.g. a system without atoms is refused as a whole
    records = [{'name': 'complete file (%d bytes, %s) is read back with %d records%s' % (len(data), case.get('eol'), case['n'], '' if full is not None else ' - refused as a whole'),
                'status': 'validated' if (full is None and case['n'] == 0) or (full is not None and len(full) == case['n']) else 'error', 'secs': 0}]
    eol = b'\r\n' if case.get('eol') == 'crlf' else b'\n'
    box_start = data.rstrip(b'\r\n').rfind(eol) + len(eol)
    tv = z3.Int('trunc')
    cover, bad, paths = [], None, 0

    def run(ctx):
        ctx.assume(z3.And(tv >= 0, tv < len(data)))
        return SymInt(tv, 0, len(data) - 1).concretize()
    for ctx, t, exc in explore(run, max_paths=5000):
        paths += 1
        cover.append(z3.And(*ctx.pc) if ctx.pc else z3.BoolVal(True))
        try:
            got, _ = _read_bytes(data, t)
            verdict = 'accepted'
        except AcceptedThenFailed as e:
            got, verdict = None, 'opened without error, then %s' % e
        except Exception:
            continue                                    # rejected: fine
        if bad is None and not (verdict == 'accepted' and got == full and t > box_start):
            bad = {'t': t, 'verdict': verdict}
    rec = {'name': 'every byte-level truncation of the %d-byte file (%s line ends%s): rejected, or accepted after the box line has started with exactly the complete records (%d paths)' % (
        len(data), case.get('eol'), ', non-ASCII names' if case.get('nonascii') else '', paths), 'status': 'unsat' if bad is None else 'sat', 'secs': 0}
    if bad:
        rec['witness'] = {'kind': 'bytes', 'n': case['n'], 'vel': case['vel'], 'eol': case.get('eol'), 'nonascii': bool(case.get('nonascii')), 't': bad['t'], 'declare': False}
    records.append(rec)
    s = z3.Solver(); s.set('timeout', 60000)
    s.add(tv >= 0, tv < len(data)); s.add(z3.Not(z3.Or(*cover)))
    r = str(s.check())
    records.append({'name': 'explored paths exhaust the truncation points', 'status': 'unsat' if r == 'unsat' else 'unknown', 'secs': 0})
    records.append({'name': 'reachability-twin', 'status': 'twin', 'secs': 0})
    return {'records': records, 'paths': paths, 'queries': 1, 'solver_s': 0, 'samples': [{'bytes': len(data), 'box_line_starts_at': box_start}], 'nontrivial': ['bytes-%s' % case.get('eol')]}


def run_case(case):
    from symx.core import explore, SymInt, Ctx
    from symx.files import SymEOFFile, MemFile, write_gro_text, apply_ops
    cap = 60000
    n, declare, vel = case['n'], case['declare'], case['vel']
    box = case.get('box', (3.0, 4.0, 5.0))
    records, samples, nontrivial = [], [], []
    st = {'paths': 0, 'queries': 0, 'solver_s': 0.0}
    recs = _records(n, vel)
    if case['mode'] == 'bytes':
        return _byte_truncation(case, recs, box)
    if case['mode'] == 'crash':
        text, ops = write_gro_text(recs, box=box, declare=declare, position_format=case.get('fmt'), oplog=True, comment=case.get('title', 'title'))
        import os, tempfile
        tmpd = tempfile.mkdtemp(prefix='c14-')

        def on_disk(content):
            # crash points are concrete contents: they are read through a real file (no file model involved)
            pth = os.path.join(tmpd, 'partial.gro')
            with open(pth, 'w', encoding='utf-8') as fh:
                fh.write(content)
            return pth

        class _Path(str):
            pass
        MemFile = lambda content: on_disk(content)      # noqa: shadow - GroFile(path) opens and closes the real file
        full, nat = _read_all(MemFile(text))
        ok_full = len(full) == n
        records.append({'name': 'complete file is read back with %d records' % n, 'status': 'validated' if ok_full else 'error', 'secs': 0})
        nwrites = sum(1 for o in ops if o[0] != 'close')
        for k in range(0, nwrites):
            partial = apply_ops(ops[:k])
            st['paths'] += 1
            try:
                got, _ = _read_all(MemFile(partial))
                accepted = True
            except AcceptedThenFailed as e:
                accepted, got = True, 'opened without error, then %s' % e
            except Exception as e:
                accepted = False
                err = type(e).__name__
            nontrivial.append('crash%d' % k)
            desc = 'crash after %d/%d writer operations (last: %s)' % (k, nwrites, (ops[k - 1][0] + ' ' + repr(ops[k - 1][-1])[:30]) if k else 'none')
            if accepted:
                # only acceptable if the content is already the complete file's records and the box line has been started
                good = got == full and len(partial) > text.rfind('\n', 0, len(text) - 1) + 1
                records.append({'name': desc + ': accepted', 'status': 'unsat' if good else 'sat', 'secs': 0,
                                'witness': None if good else {'kind': 'crash', 'n': n, 'declare': declare, 'vel': vel, 'k': k, 'title': case.get('title')}})
            else:
                records.append({'name': desc + ': rejected (%s)' % err, 'status': 'unsat', 'secs': 0})
        samples.append({'operations': [str(o)[:60] for o in ops][:8]})
        import shutil
        shutil.rmtree(tmpd, ignore_errors=True)
        return {'records': records, 'paths': st['paths'], 'queries': 0, 'solver_s': 0, 'samples': samples, 'nontrivial': nontrivial}

    text = write_gro_text(recs, box=box, declare=declare, position_format=case.get('fmt'))
    try:
        full, nat = _read_all(MemFile(text))
    except Exception as e:
        import io
        if isinstance(e, (io.UnsupportedOperation, AttributeError)):
            return {'records': [{'name': 'the reader uses the file through an interface the file model does not provide (%s: %s): symbolic truncation not applicable to this tree' % (type(e).__name__, e),
                                 'status': 'unknown', 'secs': 0}], 'paths': 0, 'queries': 0, 'solver_s': 0, 'samples': [], 'nontrivial': []}
        raise
    records.append({'name': 'translator validation: file model vs complete file (%d records read back)' % len(full),
                    'status': 'validated' if len(full) == n else 'error', 'secs': 0})
    L = len(text)
    box_start = text.rfind('\n', 0, L - 1) + 1
    tvar = z3.Int('t')

    def run(ctx):
        ctx.assume(z3.And(tvar >= 0, tvar <= L))
        f = SymEOFFile(text, SymInt(tvar, 0, L))
        try:
            got = _read_all(f)
            return ('accepted', got[0], f.looks)
        except AcceptedThenFailed as e:
            return ('accepted', 'opened without error, then ' + str(e), f.looks)
        except Exception as e:
            return ('rejected', type(e).__name__ + ': ' + str(e)[:60], f.looks)

    cover = []
    for ctx, res, exc in explore(run, max_paths=5000):
        st['paths'] += 1
        pidx = st['paths']
        if res is None:
            records.append({'name': 'path%d aborted: %r' % (pidx, exc), 'status': 'error', 'secs': 0, 'detail': repr(exc)})
            continue
        pc = z3.And(*ctx.pc) if ctx.pc else z3.BoolVal(True)
        cover.append(pc)
        nontrivial.append('path%d' % pidx)
        kind, payload, looks = res
        if kind == 'accepted':
            # (a) no accepted file ends before the box line
            r, secs, m = ctx.prove(tvar > box_start, cap)
            rec = {'name': 'path%d accepted: the truncation point lies inside the box line (t > %d)' % (pidx, box_start), 'status': r, 'secs': secs}
            if r == 'sat':
                rec['witness'] = {'kind': 'trunc', 'n': n, 'declare': declare, 'vel': vel, 't': m.eval(tvar, model_completion=True).as_long(),
                                  'box': case.get('box'), 'fmt': case.get('fmt')}
            records.append(rec)
            # (b) records identical to the complete file's
            same = payload == full
            rec = {'name': 'path%d accepted: returned records = records of the complete file' % pidx, 'status': 'unsat' if same else 'sat', 'secs': 0}
            if not same:
                r, secs, m = ctx.reachable(cap)
                rec['witness'] = {'kind': 'trunc', 'n': n, 'declare': declare, 'vel': vel,
                                  't': m.eval(tvar, model_completion=True).as_long() if m is not None else L, 'box': case.get('box'), 'fmt': case.get('fmt')}
            records.append(rec)
        else:
            records.append({'name': 'path%d rejected (%s)' % (pidx, payload), 'status': 'skipped', 'secs': 0})
        if len(samples) < 4:
            samples.append({'path_condition': str(z3.simplify(pc))[:160], 'outcome': kind, 'reader_looked_at': looks[:8]})
        st['queries'] += ctx.queries; st['solver_s'] += ctx.solver_time
    # coverage: the explored path conditions exhaust 0 <= t <= L
    s = z3.Solver(); s.set('timeout', cap)
    s.add(tvar >= 0, tvar <= L, z3.Not(z3.Or(*cover)))
    r = str(s.check())
    records.append({'name': 'coverage: the %d explored paths exhaust every truncation point 0 <= t <= %d' % (len(cover), L),
                    'status': 'unsat' if r == 'unsat' else ('unknown' if r == 'unknown' else 'sat'), 'secs': 0,
                    'witness': None})
    # every truncation before the box line is rejected  <=>  no accepted path allows t <= box_start (checked per path above)
    s = z3.Solver(); s.add(tvar >= 0, tvar <= L)
    records.append({'name': 'reachability-twin', 'status': 'twin' if str(s.check()) == 'sat' else 'twin-fail', 'secs': 0})
    return {'records': records, 'paths': st['paths'], 'queries': st['queries'], 'solver_s': st['solver_s'], 'samples': samples, 'nontrivial': nontrivial}


def replay(w):
    """Concrete: write the truncated / partially written file to disk and open it with the real GroFile(path)."""
    import os
    import tempfile
    from symx.files import write_gro_text, apply_ops
    from gaddlemaps.parsers import GroFile
    recs = _records(w['n'], w['vel'])
    box = w.get('box') or (3.0, 4.0, 5.0)
    if w['kind'] == 'bytes':
        data = _disk_bytes(w, recs, box)
        try:
            full, _ = _read_bytes(data, len(data))
        except Exception:
            full = None
        eol = b'\r\n' if w.get('eol') == 'crlf' else b'\n'
        box_start = data.rstrip(b'\r\n').rfind(eol) + len(eol)
        try:
            got, _ = _read_bytes(data, w['t'])
            what = 'accepted' if got == full and w['t'] > box_start else 'accepted a file cut at byte %d of %d (box line starts at %d) and returned %d records' % (w['t'], len(data), box_start, len(got))
            return {'reproduced': what != 'accepted', 'what': 'gro file with %s line ends: %s' % (w.get('eol'), what), 'detail': {}}
        except AcceptedThenFailed as e:
            return {'reproduced': True, 'what': 'gro file cut at byte %d opened without error, then %s' % (w['t'], e), 'detail': {}}
        except Exception as e:
            return {'reproduced': False, 'what': 'rejected with %s' % type(e).__name__, 'detail': {}}
    if w['kind'] == 'crash':
        text, ops = write_gro_text(recs, box=box, declare=w['declare'], oplog=True, comment=w.get('title') or 'title')
        partial = apply_ops(ops[:w['k']])
        where = 'after %d writer operations' % w['k']
    else:
        text = write_gro_text(recs, box=box, declare=w['declare'], position_format=tuple(w['fmt']) if w.get('fmt') else None)
        partial = text[:w['t']]
        where = 'truncated at byte %d of %d' % (w['t'], len(text))
    d = tempfile.mkdtemp(prefix='c14-')
    p = os.path.join(d, 'partial.gro')
    full_p = os.path.join(d, 'full.gro')
    try:
        open(p, 'w', encoding='utf-8').write(partial)
        open(full_p, 'w', encoding='utf-8').write(text)
        g = GroFile(full_p); full = [tuple(r) for r in g.readlines()]; g.close()
        box_start = text.rfind('\n', 0, len(text) - 1) + 1
        try:
            g = GroFile(p)
        except Exception as e:
            return {'reproduced': False, 'what': 'rejected with %s' % type(e).__name__, 'detail': {}}
        try:
            got = [tuple(r) for r in g.readlines()]
            g.close()
        except Exception as e:
            got = 'opened without error, then %s while reading the atoms' % type(e).__name__
        bad = []
        if len(partial) <= box_start:
            bad.append('file ending before its box line accepted (%s)' % (('%d atoms returned' % len(got)) if isinstance(got, list) else got))
        if got != full:
            bad.append('accepted file returns %s instead of the %d records of the complete file' % (('%d records' % len(got)) if isinstance(got, list) else got, len(full)))
        return {'reproduced': bool(bad), 'what': 'partial .gro file (%s): %s' % (where, '; '.join(bad)), 'detail': {'partial_tail': partial[-80:]}}
    finally:
        for q in (p, full_p):
            try:
                os.remove(q)
            except OSError:
                pass
        os.rmdir(d)
