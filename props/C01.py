"""C01 - anchor-and-scale law of the exchange map.
Real ExchangeMap (+ real Molecule/AtomTop/calcule_base) on symbolic coordinates and scale factor."""
import itertools
import numpy as np
import z3
from symx.core import twin_record as core_twin

ID = 'C01'
FUNCTIONS = ['gaddlemaps._exchage_map:ExchangeMap.__init__', 'gaddlemaps._exchage_map:ExchangeMap._calculate_refsystems',
             'gaddlemaps._exchage_map:ExchangeMap._calculate_refsystems_general', 'gaddlemaps._exchage_map:ExchangeMap._make_map',
             'gaddlemaps._exchage_map:ExchangeMap._find_closest_ref', 'gaddlemaps._exchage_map:ExchangeMap._proyect_point',
             'gaddlemaps._exchage_map:ExchangeMap._restore_point', 'gaddlemaps._exchage_map:ExchangeMap._restore_molecule',
             'gaddlemaps._exchage_map:ExchangeMap.__call__', 'gaddlemaps._exchage_map:ExchangeMap.equivalences',
             'gaddlemaps._auxilliary:calcule_base', 'gaddlemaps.components._components_top:AtomTop.closest_atoms',
             'gaddlemaps.components._components:Molecule.__getitem__', 'gaddlemaps.components._components:Molecule.copy']
EXPLANATION = ('The real ExchangeMap is built on real Molecule objects (bond graph concrete per structural case, every '
               'coordinate and the scale factor symbolic) and applied to the same reference.  The real calcule_base runs '
               'inside, so the collinear and axis-aligned frame branches are ordinary paths.  A path fixes the nearest anchor of '
               'each target atom and the frame branch of each anchor.  Per path and target atom: (i) the recorded anchor has >= 2 '
               'bonds and is nearest among such atoms, (ii) map(ref)[k] = a + s (p_k - a) componentwise, (iii) equivalences '
               'lists exactly the recorded pairs; the frame of each anchor is proved orthonormal on that path and then '
               'let-abstracted (v1 -> u, v3 -> c, |u|=|c|=1, u.c=0) to decide (ii).')
BOUNDS = {'quick': {'reference graphs': '3-chain (two labellings), 4-chain, 4-star, 3-ring and 4-ring (non-collinear anchors)', 'target atoms': '1 and 2',
                    'scale': 'any s in (0, 2]', 'coordinates': 'unbounded reals, all geometries incl. collinear / axis aligned'},
          'thorough': {'reference graphs': 'all labelled connected graphs on 3 and 4 atoms with >= 1 anchor, 5-chain, 5-star, 5-ring',
                       'target atoms': '1 and 2 (3 for the 3-atom references)'}}
OUTSIDE = ['references with more than 5 atoms (the law is per target atom and involves only the anchor and its two frame neighbours)',
           'binary64 rounding (the 1e-9 nm figure is exercised only at replay)', 'exact ties between anchor distances are explored as paths for references with one or two anchors, assumed away for three or more']
STUBS = ['scipy euclidean -> 3-line pure version on object arrays', 'Molecule/MoleculeTop built directly (no .itp/.gro parsing)']
ASSUMPTIONS = ['cases tagged -noncollinear (references with more than two anchors): every anchor is non-collinear with its two frame neighbours', 'reference atoms at pairwise distinct positions', '0 < s <= 2', 'exact real arithmetic']
CASE_TIMEOUT = {'quick': 900, 'thorough': 3000}
MAX_REPLAYS = 8


def _connected_graphs(n):
    from props.C07 import connected
    pairs = list(itertools.combinations(range(n), 2))
    for m in range(n - 1, len(pairs) + 1):
        for es in itertools.combinations(pairs, m):
            if connected(n, es):
                deg = [0] * n
                for a, b in es:
                    deg[a] += 1; deg[b] += 1
                if max(deg) >= 2:
                    yield list(es)


def cases(tier):
    cs = []
    if tier == 'quick':
        graphs = {'chain3-mid1': (3, [(0, 1), (1, 2)]), 'chain3-mid0': (3, [(0, 1), (0, 2)]), 'ring3': (3, [(0, 1), (1, 2), (0, 2)]),
                  'chain4': (4, [(0, 1), (1, 2), (2, 3)]), 'star4': (4, [(0, 1), (0, 2), (0, 3)]),
                  'ring4': (4, [(0, 1), (1, 2), (2, 3), (0, 3)])}
        for nm, (n, g) in graphs.items():
            for nt in (1, 2):
                if nm in ('ring4', 'ring3'):
                    # several anchors: 3 frame branches per anchor multiply the paths; rings are explored with every
                    # anchor triple assumed non-collinear (the collinear branches are covered by the chain/star cases)
                    if nt == 1:
                        cs.append({'name': '%s-noncollinear/tgt%d' % (nm, nt), 'n': n, 'edges': g, 'nt': nt, 'generic': True})
                    continue
                cs.append({'name': '%s/tgt%d' % (nm, nt), 'n': n, 'edges': g, 'nt': nt})
    else:
        for n in (3, 4):
            for gi, g in enumerate(_connected_graphs(n)):
                nanch = sum(1 for i in range(n) if sum(1 for e in g if i in e) >= 2)
                for nt in ((1, 2, 3) if n == 3 else (1, 2)):
                    cs.append({'name': 'g%d-%d%s/tgt%d' % (n, gi, '-noncollinear' if nanch > 2 else '', nt), 'n': n, 'edges': g, 'nt': nt,
                               'generic': nanch > 2})
        for nm, g in {'chain5': [(i, i + 1) for i in range(4)], 'star5': [(0, i) for i in range(1, 5)],
                      'ring5': [(i, (i + 1) % 5) for i in range(5)]}.items():
            cs.append({'name': '%s%s/tgt1' % (nm, '' if nm == 'star5' else '-noncollinear'), 'n': 5, 'edges': [(min(a, b), max(a, b)) for a, b in g],
                       'nt': 1, 'generic': nm != 'star5'})
    return cs


def run_case(case):
    from symx.core import explore, SymReal, expr, concretize_inputs, SymZeroDivision, dot3
    from symx import npx
    from symx.mol import make_molecule, simple_atoms
    npx.install()
    from gaddlemaps import ExchangeMap
    cap = 60000 if case['tier'] == 'quick' else 180000
    n, edges, nt = case['n'], [tuple(e) for e in case['edges']], case['nt']
    records, samples, nontrivial = [], [], []
    st = {'paths': 0, 'queries': 0, 'solver_s': 0.0}
    rv = [[z3.Real('r%d_%d' % (i, k)) for k in range(3)] for i in range(n)]
    tv = [[z3.Real('t%d_%d' % (j, k)) for k in range(3)] for j in range(nt)]
    s = z3.Real('s')
    inputs = {'r%d_%d' % (i, k): rv[i][k] for i in range(n) for k in range(3)}
    inputs.update({'t%d_%d' % (j, k): tv[j][k] for j in range(nt) for k in range(3)})
    inputs['s'] = s
    from symx.core import Ctx as _Ctx
    _Ctx.default_sample_inputs = inputs
    deg = [sum(1 for e in edges if i in e) for i in range(n)]
    anchors = [i for i in range(n) if deg[i] >= 2]

    def run(ctx):
        ctx.assume(z3.And(s > 0, s <= 2))
        for i in range(n):
            for j in range(i):
                ctx.assume(z3.Or(*[rv[i][k] != rv[j][k] for k in range(3)]))
        if len(anchors) >= 3:
            from symx.frames import assume_no_distance_ties
            assume_no_distance_ties(ctx, tv, [rv[a_] for a_ in anchors])
        if case.get('generic'):
            adj = {i: sorted(b if a == i else a for a, b in edges if i in (a, b)) for i in range(n)}
            for a_ in anchors:
                d1 = [rv[adj[a_][0]][c] - rv[a_][c] for c in range(3)]
                d2 = [rv[adj[a_][1]][c] - rv[a_][c] for c in range(3)]
                cr = [d1[1] * d2[2] - d1[2] * d2[1], d1[2] * d2[0] - d1[0] * d2[2], d1[0] * d2[1] - d1[1] * d2[0]]
                ctx.assume(z3.Or(*[x != 0 for x in cr]))
        ref = make_molecule('REF', simple_atoms(n, 'C', 'REF'), edges, [[SymReal(v) for v in row] for row in rv])
        tgt = make_molecule('TGT', simple_atoms(nt, 'A', 'TGT'), [(j, j + 1) for j in range(nt - 1)],
                            [[SymReal(v) for v in row] for row in tv])
        m = ExchangeMap(ref, tgt, SymReal(s))
        frames0 = {a: fr for a, fr in m._refsystems.items()}
        out = m(ref)
        return m, out.atoms_positions, frames0

    from symx.frames import prove_frame, restore_lemma

    def wit(ctx, extra, model, nm):
        return {'kind': 'map', 'n': n, 'edges': edges, 'nt': nt, 'obligation': nm,
                'inputs': concretize_inputs(ctx, extra, inputs, model, grids=(1, 2, 4))}

    for ctx, res, exc in explore(run, max_paths=1500):
        st['paths'] += 1
        pidx = st['paths']
        if res is None:
            # a division by zero inside the frame construction for distinct atoms = non-finite mapped coordinates
            r, secs, m_ = ctx.reachable(cap)
            rec = {'name': 'path%d: finite frames for distinct positions (no 0/0)' % pidx, 'status': r, 'secs': secs}
            if r == 'sat':
                rec['witness'] = wit(ctx, [], m_, 'finite')
            records.append(rec)
            st['queries'] += ctx.queries; st['solver_s'] += ctx.solver_time
            continue
        nontrivial.append('path%d' % pidx)
        m, out, frames0 = res
        if pidx <= 2:
            records.append(core_twin(ctx, cap))
        eq = m._equivalences
        # (iii) equivalences bookkeeping (concrete integers)
        rev = {}
        for k_, a_ in eq.items():
            rev.setdefault(a_, []).append(k_)
        ok = m.equivalences == rev and set(eq) == set(range(nt)) and all(a_ in anchors for a_ in eq.values())
        records.append({'name': 'path%d: equivalences = recorded anchor of every target atom, anchors have >= 2 bonds' % pidx,
                        'status': 'unsat' if ok else 'sat', 'secs': 0,
                        'witness': None if ok else {'kind': 'map', 'n': n, 'edges': edges, 'nt': nt, 'obligation': 'equivalences',
                                                    'inputs': {k: [3 + 5 * i % 17, 4] for i, k in enumerate(sorted(inputs))}}})
        proved_frames = {}
        for k in range(nt):
            a = eq[k]
            A, P = rv[a], tv[k]
            # (i) nearest among the atoms with two bonded neighbours (euclidean distances = the code's own sqrt terms)
            if len(anchors) > 1:
                from symx.core import Ctx
                Ctx.cur = ctx
                Pn = np.array([SymReal(x) for x in P], dtype=object)
                dist = {b: expr(npx.sym_euclidean(Pn, np.array([SymReal(x) for x in rv[b]], dtype=object))) for b in anchors}
                claim = z3.And(*[dist[a] <= dist[b] for b in anchors if b != a])
                r, secs, mo = ctx.prove_from_pc(claim, cap)
                rec = {'name': 'path%d tgt%d: anchor %d is the nearest atom with two bonds' % (pidx, k, a), 'status': r, 'secs': secs}
                if r == 'sat':
                    rec['witness'] = wit(ctx, [z3.Not(claim), s != 1], mo, 'nearest')
                records.append(rec)
            # frame lemmas for this anchor on this path (rows on the real expressions, columns via abstraction)
            frame, origin = m._refsystems[a]
            if a not in proved_frames:
                ok_f, passes, lemmas = prove_frame(ctx, frame, cap, 'path%d anchor%d' % (pidx, a), records, wit)
                cl = z3.And(*[expr(origin[c]) == A[c] for c in range(3)])
                r, secs, mo = ctx.prove(cl, cap)
                rec = {'name': 'path%d anchor%d: frame origin = anchor position' % (pidx, a), 'status': r, 'secs': secs}
                if r == 'sat':
                    rec['witness'] = wit(ctx, [z3.Not(cl)], mo, 'origin')
                records.append(rec)
                proved_frames[a] = (ok_f, passes, lemmas)
            ok_f, passes, lemmas = proved_frames[a]
            if ok_f and st.get('restore') is None:
                st['restore'] = restore_lemma(ctx, cap, records, 'path%d' % pidx) or False
            for c in range(3):
                claim = expr(out[k][c]) == A[c] + s * (P[c] - A[c])
                if ok_f and st['restore']:
                    Ff = [[passes[2][cc_][1] for cc_ in range(3)], [passes[0][cc_][1] for cc_ in range(3)], [passes[1][cc_][1] for cc_ in range(3)]]
                    hyp = st['restore'](Ff, [P[x] - A[x] for x in range(3)], s)
                    r, secs, mo = ctx.prove_abstracted(claim, passes, [hyp[c]], cap, drop_prefixes=('sqrt!',))
                else:
                    r, secs, mo = ctx.prove(claim, cap)
                rec = {'name': 'path%d tgt%d: map(ref)[%s] = a + s (p - a), anchor %d' % (pidx, k, 'xyz'[c], a), 'status': r, 'secs': secs}
                if r == 'sat':
                    rec['witness'] = wit(ctx, [z3.Not(claim)], mo, 'law')
                records.append(rec)
        if len(samples) < 3:
            samples.append({'graph': edges, 'anchor_of_target': dict(eq), 'path_condition': [str(p)[:90] for p in ctx.pc][:6]})
        st['queries'] += ctx.queries; st['solver_s'] += ctx.solver_time
    return {'records': records, 'paths': st['paths'], 'queries': st['queries'], 'solver_s': st['solver_s'],
            'samples': samples, 'nontrivial': nontrivial}


def _observe(n, nt, edges, R, T, s):
    """real ExchangeMap on concrete numbers -> (list of deviations from the property, collinear flag, output)"""
    from symx.mol import make_molecule, simple_atoms
    from gaddlemaps import ExchangeMap
    ref = make_molecule('REF', simple_atoms(n, 'C', 'REF'), edges, R)
    tgt = make_molecule('TGT', simple_atoms(nt, 'A', 'TGT'), [(j, j + 1) for j in range(nt - 1)], T)
    deg = [sum(1 for e in edges if i in e) for i in range(n)]
    anchors = [i for i in range(n) if deg[i] >= 2]
    bad = []
    with np.errstate(all='ignore'):
        m = ExchangeMap(ref, tgt, s)
        out = m(ref).atoms_positions
    collinear = False
    for k in range(nt):
        d = [np.linalg.norm(T[k] - R[a]) for a in anchors]
        a = anchors[int(np.argmin(d))]
        nb = sorted(b if c == a else c for (b, c) in edges if a in (b, c))[:2]
        if not np.any(np.cross(R[nb[1]] - R[a], R[nb[0]] - R[a])):
            collinear = True
        want = R[a] + s * (T[k] - R[a])
        rec_anchor = [anc for anc, tl in m.equivalences.items() if k in tl]
        unique = sorted(d)[0] < sorted(d + [np.inf])[1] - 1e-9
        if unique and rec_anchor != [a]:
            bad.append('target atom %d assigned to anchor %s although atom %d is the closest atom with two bonds (distances %s)' % (
                k, rec_anchor, a, [round(x, 6) for x in d]))
        if not np.all(np.isfinite(out[k])):
            bad.append('target atom %d mapped to non-finite coordinates' % k)
        elif unique and np.abs(out[k] - want).max() > 1e-9:
            bad.append('target atom %d at %s instead of a + s (p - a) = %s' % (k, np.round(out[k], 6).tolist(), np.round(want, 6).tolist()))
    return bad, collinear, out


def replay(w):
    from symx.core import fval
    v = {k: fval(x) for k, x in w['inputs'].items()}
    n, nt, edges = w['n'], w['nt'], [tuple(e) for e in w['edges']]
    R = np.array([[v['r%d_%d' % (i, k)] for k in range(3)] for i in range(n)])
    T = np.array([[v['t%d_%d' % (j, k)] for k in range(3)] for j in range(nt)])
    s = v['s']
    bad, collinear, out = _observe(n, nt, edges, R, T, s)
    if not bad and w.get('obligation') == 'nearest':
        # The solver showed that the recorded anchor is not decided by the exact order of the distances.  The observable
        # consequence is looked for on the witness reference with target atoms placed next to the bisector plane of each
        # pair of anchors (gap between the two distances 1e-4 .. 8e-4 nm, either sign), s = 1/2.
        deg = [sum(1 for e in edges if i in e) for i in range(n)]
        anchors = [i for i in range(n) if deg[i] >= 2]
        for i in anchors:
            for j in anchors:
                if i >= j or bad:
                    continue
                A, B = R[i], R[j]
                u = (B - A) / np.linalg.norm(B - A)
                wv = np.cross(u, [0.3, 0.5, 0.8]); wv = wv / np.linalg.norm(wv)
                for lam in (1e-4, 2e-4, 4e-4, -1e-4, -2e-4, -4e-4):
                    Tp = np.array([(A + B) / 2 + 0.37 * wv + lam * u] * nt) + np.array([[0.0, 0.0, 0.01 * q] for q in range(nt)])
                    b2, c2, out = _observe(n, nt, edges, R, Tp, 0.5)
                    if b2:
                        bad, collinear, T, s = b2, c2, Tp, 0.5
                        break
    return {'reproduced': bool(bad), 'what': 'ExchangeMap(ref)(ref) (%s anchor): %s' % ('collinear' if collinear else 'generic', '; '.join(bad)[:300]),
            'detail': {'ref': R.tolist(), 'tgt': np.asarray(T).tolist(), 's': s, 'edges': edges, 'out': np.asarray(out, dtype=float).tolist()}}
