"""C11 - System recognises exactly the molecule instances present, in file order.
Real System / SystemGro / GroFile / Molecule on in-memory files written by the real writer; the topology loading
order, the access index and the slice bounds are symbolic integers."""
import itertools
import z3

ID = 'C11'
FUNCTIONS = ['gaddlemaps.components._system:System.__init__', 'gaddlemaps.components._system:System.add_molecule_top',
             'gaddlemaps.components._system:System._check_index_in_available_mgro', 'gaddlemaps.components._system:System._find_all_molecules_and_replace',
             'gaddlemaps.components._system:System._molecules_ordered_all_gen', 'gaddlemaps.components._system:System.__getitem__',
             'gaddlemaps.components._system:System.__iter__', 'gaddlemaps.components._system:System.__len__', 'gaddlemaps.components._system:System.composition',
             'gaddlemaps.components._components:Molecule.__init__', 'gaddlemaps.components._components:_molecule_top_and_residues_match',
             'gaddlemaps.components._components_top:MoleculeTop.resname_len_list']
EXPLANATION = ('For every sequence of molecule instances within the bound (3 loadable species: a two-residue lipid, a one-atom ion, a '
               'three-residue peptide with a repeated residue; plus an unloaded three-atom solvent) the coordinate file is produced by the real '
               'writer and opened by the real System from in-memory files.  The topology loading order is a symbolic permutation index and '
               'the access index / slice bounds are symbolic integers: the solver enumerates their feasible values (one path each) and proves '
               'the explored paths exhaust the ranges.  On every path the molecules returned (iteration, len, composition, integer and '
               'negative indexing, slicing) are compared with the instances the file was assembled from: contiguous disjoint atom runs in file '
               'order, atom names equal to the topology, coordinates equal to the file.  A topology without a matching run must raise IOError.')
BOUNDS = {'quick': {'compositions': 'all sequences of 1..4 instances over 4 species (340), 29 with a self-overlapping two-residue dimer, 22 with residue kinds shared between species (polymer / cap / free monomer), 8 with per-molecule residue numbering', 'load orders': 'all permutations of the loaded species present (symbolic)',
                    'index': 'every k in [-len, len)', 'slices': 'every 0 <= a <= b <= len'},
          'thorough': {'compositions': 'all sequences of 1..5 instances (1364) and selected 6-instance interleavings'}}
OUTSIDE = ['species whose residue signatures are not distinct (outside the statement)', 'random longer systems', 'coordinates are concrete decimals (text)']
STUBS = ['file objects -> in-memory text files; topologies built directly with the real AtomTop/MoleculeTop classes']
ASSUMPTIONS = ['consecutive residues never share both number and name']
CASE_TIMEOUT = {'quick': 900, 'thorough': 3000}

# species: name -> list of residues (resname, [atom names])
SPECIES = {
    'L': ('LIP', [('LA', ['C1', 'C2']), ('LB', ['P1'])], [(0, 1), (1, 2)]),
    'I': ('ION', [('IO', ['NA'])], []),
    'P': ('PEP', [('PA', ['N1']), ('PB', ['CA', 'CB']), ('PA', ['N1'])], [(0, 1), (1, 2), (2, 3)]),
    'W': ('SOL', [('SOL', ['OW', 'H1', 'H2'])], [(0, 1), (0, 2)]),
    'D': ('DIM', [('MON', ['M1']), ('MON', ['M1'])], [(0, 1)]),          # two identical residues: the pattern overlaps itself
    # residue kinds shared between species: a polymer starting with a repeated residue, a cap ending with that residue and
    # the same residue alone (unloaded): a window search must not skip past a partial match
    'Q': ('POL', [('MN', ['M1']), ('MN', ['M1']), ('TR', ['T1'])], [(0, 1), (1, 2)]),
    'C': ('CAP', [('HD', ['H1']), ('MN', ['M1'])], [(0, 1)]),
    'N': ('MNF', [('MN', ['M1'])], []),
}
LOADABLE = 'LIPDQC'


def _build(comp, numbering='fresh'):
    """records of the file and the expected instances [(species letter, first atom id, [(resname, atomname, (x,y,z))...])]
    numbering 'fresh': every residue its own number; 'per-molecule': all residues of a molecule share the molecule's number
    (adjacent residues then differ only by name)"""
    recs, inst = [], []
    atomid, resid = 1, 1
    for slot, sp in enumerate(comp):
        name, residues, bonds = SPECIES[sp]
        atoms = []
        first = atomid
        for rn, ats in residues:
            for an in ats:
                xyz = (round(0.1 * atomid, 3), round(0.5 * slot, 3), round(0.01 * resid, 3))
                recs.append([resid if numbering == 'fresh' else slot + 1, rn, an, atomid, xyz[0], xyz[1], xyz[2]])
                atoms.append((rn, an, xyz))
                atomid += 1
            resid += 1
        inst.append((sp, first, atoms))
    return recs, inst


def _top(sp):
    from symx.mol import make_top
    name, residues, bonds = SPECIES[sp]
    atoms, rid = [], 1
    for rn, ats in residues:
        for an in ats:
            atoms.append((an, rn, rid))
        rid += 1
    return make_top(name, atoms, bonds)


def cases(tier):
    maxlen = 4 if tier == 'quick' else 5
    comps = [''.join(p) for l in range(1, maxlen + 1) for p in itertools.product('LIPW', repeat=l)]
    comps = [c for c in comps if any(ch in 'LIP' for ch in c)]
    # the self-overlapping dimer, alone / adjacent / interleaved (smaller set: it multiplies the alphabet)
    comps += [''.join(p) for l in range(1, 4) for p in itertools.product('DIW', repeat=l) if 'D' in p] + ['DDDD', 'LDDP', 'DPDD']
    comps += [''.join(p) for l in range(1, 4) for p in itertools.product('QCN', repeat=l) if 'Q' in p] + ['NQCQ', 'QNNQ', 'CQCQ']
    # per-molecule residue numbering for the multi-residue species
    comps += ['#' + c for c in ('L', 'LL', 'PL', 'LPL', 'PP', 'LIP', 'PWL', 'LLL')]
    if tier == 'thorough':
        comps += ['LWLPIP', 'PPWPPL', 'ILILIL', 'WPWPWP', 'LLLLLL', 'PIPIPW']
    cs = []
    for i in range(0, len(comps), 24):
        cs.append({'name': 'compositions/%d-%d' % (i, min(len(comps), i + 24) - 1), 'comps': comps[i:i + 24]})
    return cs


def run_case(case):
    from symx.core import explore, SymInt
    from symx.files import MemFile, write_gro_text
    from gaddlemaps.components import System
    import numpy as np
    cap = 60000
    records, samples, nontrivial = [], [], []
    st = {'paths': 0, 'queries': 0, 'solver_s': 0.0}

    def mol_tuple(m):
        return (m.name, [(a.resname, a.name, tuple(round(float(x), 6) for x in a.position)) for a in m], m.atoms_ids[0])

    for comp in case['comps']:
        numbering = 'per-molecule' if comp.startswith('#') else 'fresh'
        comp = comp.lstrip('#')
        recs, inst = _build(comp, numbering)
        text = write_gro_text(recs, comment='comp ' + comp)
        present = sorted({sp for sp in comp if sp in LOADABLE})
        absent = [sp for sp in LOADABLE if sp not in comp]
        perms = list(itertools.permutations(present))
        expected = [(SPECIES[sp][0], atoms, first) for sp, first, atoms in inst if sp in LOADABLE]
        n = len(expected)
        pv, kv, av, bv = z3.Int('perm'), z3.Int('k'), z3.Int('a'), z3.Int('b')

        def run(ctx, mode):
            ctx.assume(z3.And(pv >= 0, pv < len(perms)))
            order = perms[SymInt(pv, 0, len(perms) - 1).concretize()]
            try:
                sysm = System(MemFile(text, 'comp.gro'))
                for sp in order:
                    sysm.add_molecule_top(_top(sp))
            except Exception as e:       # a failure of the real code on a well-formed system is a finding
                return order, ('failed', '%s: %s' % (type(e).__name__, str(e)[:80]))
            if mode == 'all':
                try:
                    mols = [mol_tuple(m) for m in sysm]
                except Exception as e:
                    return order, ('failed', 'iteration raised %s: %s' % (type(e).__name__, str(e)[:60]))
                comp_counts = dict(sysm.composition)
                err = None
                for sp in absent:
                    try:
                        sysm.add_molecule_top(_top(sp))
                        err = 'topology of absent species %s accepted' % sp
                    except IOError:
                        pass
                still = [mol_tuple(m) for m in sysm]
                return order, (mols, len(sysm), comp_counts, err, still)
            if mode == 'index':
                ctx.assume(z3.And(kv >= -n, kv < n))
                k = SymInt(kv, -n, n - 1).concretize()
                try:
                    return order, (k, mol_tuple(sysm[k]))
                except Exception as e:
                    return order, ('failed', 'System[%d] raised %s: %s' % (k, type(e).__name__, str(e)[:60]))
            ctx.assume(z3.And(av >= 0, av <= bv, bv <= n))
            a = SymInt(av, 0, n).concretize()
            b = SymInt(bv, 0, n).concretize()
            try:
                return order, ((a, b), [mol_tuple(m) for m in sysm[a:b]])
            except Exception as e:
                return order, ('failed', 'System[%d:%d] raised %s: %s' % (a, b, type(e).__name__, str(e)[:60]))

        for mode in ('all', 'index', 'slice'):
            cover, bad = [], None
            for ctx, res, exc in explore(lambda ctx: run(ctx, mode), max_paths=20000):
                st['paths'] += 1
                cover.append(z3.And(*ctx.pc) if ctx.pc else z3.BoolVal(True))
                if res is None:
                    bad = bad or {'order': None, 'what': 'abort %r' % (exc,)}
                    continue
                order, payload = res
                if payload[0] == 'failed':
                    if bad is None:
                        bad = {'order': ''.join(order), 'what': 'loading raised ' + payload[1], 'numbering': numbering}
                    continue
                if mode == 'all':
                    mols, ln, cc, err, still = payload
                    want_cc = {}
                    for nm, _, _ in expected:
                        want_cc[nm] = want_cc.get(nm, 0) + 1
                    good = mols == expected and ln == n and cc == want_cc and err is None and still == expected
                elif mode == 'index':
                    k, got = payload
                    good = got == expected[k]
                else:
                    (a, b), got = payload
                    good = got == expected[a:b]
                if not good and bad is None:
                    bad = {'order': ''.join(order), 'what': mode, 'arg': payload[0] if mode != 'all' else None, 'numbering': numbering}
            nontrivial.append('%s/%s' % (comp, mode))
            what = {'all': 'iteration = the loaded-species instances in file order; len, composition agree; absent topologies refused',
                    'index': 'System[k] for every k in [-len, len) = k-th instance', 'slice': 'System[a:b] = instances a..b-1'}[mode]
            rec = {'name': '%s: %s, every load order (%d paths)' % (comp, what, len(cover)), 'status': 'unsat' if bad is None else 'sat', 'secs': 0}
            if bad is not None:
                rec['witness'] = {'kind': 'system', 'comp': comp, **bad}
            records.append(rec)
            s = z3.Solver(); s.set('timeout', cap)
            rng = [pv >= 0, pv < len(perms)] + ([kv >= -n, kv < n] if mode == 'index' else [av >= 0, av <= bv, bv <= n] if mode == 'slice' else [])
            s.add(*rng); s.add(z3.Not(z3.Or(*cover)))
            r = str(s.check())
            records.append({'name': '%s: explored paths exhaust the symbolic load-order/%s ranges' % (comp, mode),
                            'status': 'unsat' if r == 'unsat' else ('unknown' if r == 'unknown' else 'sat'), 'secs': 0})
        if len(samples) < 3:
            samples.append({'composition': comp, 'expected_instances': [(e[0], e[2]) for e in expected]})
    records.append({'name': 'reachability-twin', 'status': 'twin', 'secs': 0})
    return {'records': records, 'paths': st['paths'], 'queries': st['queries'], 'solver_s': st['solver_s'], 'samples': samples, 'nontrivial': nontrivial}


def replay(w):
    """Concrete, with real files on disk (.gro written by the real writer, .itp files written as text)."""
    import os
    import tempfile
    import shutil
    from symx.files import write_gro_text
    from gaddlemaps.components import System
    comp = w['comp']
    recs, inst = _build(comp, w.get('numbering', 'fresh'))
    d = tempfile.mkdtemp(prefix='c11-')
    try:
        open(os.path.join(d, 'comp.gro'), 'w').write(write_gro_text(recs, comment='comp ' + comp))
        itps = {}
        for sp in LOADABLE:
            name, residues, bonds = SPECIES[sp]
            lines = ['[ moleculetype ]', '%s 1' % name, '', '[ atoms ]']
            i, rid = 1, 1
            for rn, ats in residues:
                for an in ats:
                    lines.append('%d T %d %s %s %d 0.0' % (i, rid, rn, an, i)); i += 1
                rid += 1
            lines += ['', '[ bonds ]'] + ['%d %d 1' % (a + 1, b + 1) for a, b in bonds] + ['']
            itps[sp] = os.path.join(d, name + '.itp')
            open(itps[sp], 'w').write('\n'.join(lines))
        present = sorted({sp for sp in comp if sp in LOADABLE})
        expected = [(SPECIES[sp][0], [(rn, an) for rn, an, _ in atoms], first) for sp, first, atoms in inst if sp in LOADABLE]
        bad = []
        orders = [tuple(w['order'])] if w.get('order') else list(itertools.permutations(present))
        for order in orders:
            try:
                sysm = System(os.path.join(d, 'comp.gro'), *[itps[sp] for sp in order])
                got = [(m.name, [(a.resname, a.name) for a in m], m.atoms_ids[0]) for m in sysm]
                if got != expected or len(sysm) != len(expected):
                    bad.append('load order %s: %d molecules recognised, %d instances present (or wrong atoms/order)' % (''.join(order), len(got), len(expected)))
                for k in range(-len(expected), len(expected)):
                    m = sysm[k]
                    if (m.name, m.atoms_ids[0]) != (expected[k][0], expected[k][2]):
                        bad.append('load order %s: System[%d] is not the %d-th instance' % (''.join(order), k, k)); break
                for a in range(len(expected) + 1):
                    for b in range(a, len(expected) + 1):
                        if [(m.name, m.atoms_ids[0]) for m in sysm[a:b]] != [(e[0], e[2]) for e in expected[a:b]]:
                            bad.append('load order %s: slice [%d:%d] wrong' % (''.join(order), a, b)); break
                for sp in LOADABLE:
                    if sp not in comp:
                        try:
                            sysm.add_ftop(itps[sp]); bad.append('topology of absent species accepted')
                        except IOError:
                            pass
                del sysm
            except Exception as e:
                bad.append('load order %s: %s: %s' % (''.join(order), type(e).__name__, str(e)[:80]))
        bad = sorted(set(bad))[:3]
        return {'reproduced': bool(bad), 'what': 'System on composition %s: %s' % (comp, '; '.join(bad)), 'detail': {}}
    finally:
        shutil.rmtree(d, ignore_errors=True)
