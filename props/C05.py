"""C05 - system extrapolation conserves molecules, order, numbering, box and title.
Real Manager (constructor, add_end_molecules, calculate_exchange_maps, extrapolate_system, complete_correspondence)
with real Alignment / ExchangeMap objects; the system is a directly constructed stand-in yielding real Molecules with
symbolic coordinates, the writer a recorder."""
import itertools
import numpy as np
import z3

ID = 'C05'
FUNCTIONS = ['gaddlemaps._manager:Manager.__init__', 'gaddlemaps._manager:Manager.extrapolate_system', 'gaddlemaps._manager:Manager.complete_correspondence',
             'gaddlemaps._manager:Manager.add_end_molecule', 'gaddlemaps._manager:Manager.calculate_exchange_maps', 'gaddlemaps._alignment:Alignment.init_exchange_map',
             'gaddlemaps._exchage_map:ExchangeMap.__call__', 'gaddlemaps.components._residue:AtomGro.gro_line']
EXPLANATION = ('The real Manager is built around a stand-in system whose iteration yields real Molecule objects: the sequence of species per slot and the '
               'subset of species that received an end molecule are chosen by symbolic integers (solver-enumerated), every coordinate of every system '
               'molecule, the box matrix entries and the scale factor are symbolic reals.  open_coordinate_file is replaced by a recording writer.  '
               'On every path: the written records are exactly, in input order, the records of exchange_map(mol) for each molecule whose species has '
               'both resolutions (coordinate terms proved equal to a separate application of that species\' map), nothing for other species; atom '
               'numbers run 1..sum of target sizes; residue numbers are those of the input molecule; title and box objects are forwarded unchanged; '
               'with a missing exchange map SystemError is raised and the writer factory is never called.')
BOUNDS = {'quick': {'molecules': '<= 4 slots over 3 species (two mappable, one without end molecule)', 'end-molecule subsets': 'all 4', 'box': 'symbolic 3x3 entries'},
          'thorough': {'molecules': '<= 5 slots'}}
OUTSIDE = ['precision of the coordinate format and the re-reading of the written file (C13/C14)', 'the shipped BMIM/BF4 box (a concrete run; not part of the symbolic claim)',
           'references of fewer than three atoms']
STUBS = ['calcule_base -> functional contract stub (free frame per anchor triple; the real one is C01/C02/C17)', 'System -> stand-in with different_molecules / system_gro.comment_line / system_gro.box_matrix / __iter__ yielding real Molecules',
         'gaddlemaps._manager.open_coordinate_file -> recording writer']
ASSUMPTIONS = ['anchor atoms non-collinear with their frame neighbours (collinear frames: C01/C02)', 'exact real arithmetic']
CASE_TIMEOUT = {'quick': 900, 'thorough': 3000}

SPECIES = {
    'A': dict(name='AMOL', ref=[('A1', 'ARE'), ('A2', 'ARE'), ('A3', 'ARE')], refbonds=[(0, 1), (1, 2)],
              tgt=[('X1', 'AAA'), ('X2', 'AAA')], tgtbonds=[(0, 1)]),
    'B': dict(name='BMOL', ref=[('B1', 'BRE'), ('B2', 'BRE'), ('B3', 'BRE')], refbonds=[(0, 1), (0, 2)],
              tgt=[('Y1', 'BAA'), ('Y2', 'BAA'), ('Y3', 'BAA'), ('Y4', 'BAA')], tgtbonds=[(0, 1), (1, 2), (2, 3)]),
    'C': dict(name='CMOL', ref=[('W1', 'CRE'), ('W2', 'CRE'), ('W3', 'CRE')], refbonds=[(0, 1), (1, 2)], tgt=None, tgtbonds=None),
}


def cases(tier):
    maxslots = 4 if tier == 'quick' else 5
    return [{'name': 'slots%d' % n, 'n': n} for n in range(1, maxslots + 1)] + [{'name': 'missing-maps'}, {'name': 'partial-maps'}]


def run_case(case):
    from symx.core import explore, SymReal, SymInt, expr, Ctx, concretize_inputs
    from symx.core import PathAbort as core_PathAbort
    from symx import npx
    from symx.mol import make_molecule, make_top
    npx.install()
    import gaddlemaps._manager as mg
    from gaddlemaps import Manager
    cap = 60000
    records, samples, nontrivial = [], [], []
    st = {'paths': 0, 'queries': 0, 'solver_s': 0.0}
    writes = []

    class RecWriter:
        def __init__(self, path, mode):
            self.path, self.mode, self.lines = path, mode, []
            self.comment = None
            self.box_matrix = None
            writes.append(self)

        def __enter__(self):
            return self

        def __exit__(self, *a):
            self.closed = True

        def writeline(self, line):
            self.lines.append(list(line))
    mg.open_coordinate_file = lambda path, mode='r': RecWriter(path, mode)
    # The frame construction is the subject of C01/C02/C17: here it is a functional contract stub (one free frame per
    # distinct anchor triple), which removes the frame-branch forks and radicals from the manager's plumbing obligations
    import gaddlemaps._exchage_map as em
    frames = {}

    def frame_stub(pos):
        key = tuple(z3.simplify(expr(x)).sexpr() if not isinstance(x, (int, float, np.floating)) else repr(float(x)) for p in pos for x in p)
        if key not in frames:
            frames[key] = tuple(np.array([SymReal(Ctx.cur.freshvar('F%d%d_' % (j, k))) for k in range(3)], dtype=object) for j in range(3))
        return frames[key], pos[0]
    em.calcule_base = frame_stub
    tops = {k: make_top(v['name'], [(an, rn, 1) for an, rn in v['ref']], v['refbonds']) for k, v in SPECIES.items()}

    def ref_mol(sp, coords, resid):
        v = SPECIES[sp]
        return make_molecule(v['name'], [(an, rn, 1) for an, rn in v['ref']], v['refbonds'], coords, resid_offset=resid - 1, top=tops[sp])

    def end_mol(sp):
        v = SPECIES[sp]
        n = len(v['tgt'])
        return make_molecule(v['name'], [(an, rn, 1) for an, rn in v['tgt']], v['tgtbonds'],
                             [[0.11 * i + 0.05, 0.07 * i * i, 0.13 * (i % 2) + 0.02] for i in range(n)])

    class FakeGro:
        pass

    class FakeSystem:
        def __init__(self, first, seq_mols, comment, box):
            self.different_molecules = first
            self.system_gro = FakeGro()
            self.system_gro.comment_line = comment
            self.system_gro.box_matrix = box
            self._mols = seq_mols

        def __iter__(self):
            for m in self._mols:
                yield m
    nslots = case.get('n', 2)
    sv = [z3.Int('slot%d' % i) for i in range(nslots)]
    ev = z3.Int('ends')
    s = z3.Real('s')
    coordv = [[[z3.Real('m%d_%d_%d' % (q, i, k)) for k in range(3)] for i in range(3)] for q in range(nslots)]
    boxv = [[z3.Real('box%d%d' % (i, j)) for j in range(3)] for i in range(3)]
    inputs = {'s': s}
    for q in range(nslots):
        for i in range(3):
            for k in range(3):
                inputs['m%d_%d_%d' % (q, i, k)] = coordv[q][i][k]
    Ctx.default_sample_inputs = inputs
    missing_mode = case['name'] in ('missing-maps', 'partial-maps')
    partial_mode = case['name'] == 'partial-maps'

    def run(ctx):
        del writes[:]
        frames.clear()
        ctx.assume(z3.And(s > 0, s <= 2))
        ctx.assume(z3.And(ev >= 0, ev < 4))
        ends = SymInt(ev, 0, 3).concretize()            # bit 0: A has an end molecule, bit 1: B has one
        seq = []
        for q in range(nslots):
            ctx.assume(z3.And(sv[q] >= 0, sv[q] < 3))
            seq.append('ABC'[SymInt(sv[q], 0, 2).concretize()])
        # first instance of each species (constructor input), concrete template geometry
        first = [ref_mol(sp, [[0.3 * i, 0.1 * i * i + 0.05 * (ord(sp) - 64), 0.02 * i] for i in range(3)], 1) for sp in 'ABC']
        mols = []
        for q, sp in enumerate(seq):
            rows = coordv[q]
            d1 = [rows[SPECIES[sp]['refbonds'][0][1] if sp == 'B' else 0][c] - rows[0 if sp == 'B' else 1][c] for c in range(3)]
            anchor = 0 if sp == 'B' else 1
            nb = sorted(b if a == anchor else a for a, b in SPECIES[sp]['refbonds'] if anchor in (a, b))[:2]
            u = [rows[nb[0]][c] - rows[anchor][c] for c in range(3)]
            w = [rows[nb[1]][c] - rows[anchor][c] for c in range(3)]
            cr = [u[1] * w[2] - u[2] * w[1], u[2] * w[0] - u[0] * w[2], u[0] * w[1] - u[1] * w[0]]
            ctx.assume(z3.Or(*[x != 0 for x in cr]))
            mols.append(ref_mol(sp, [[SymReal(v) for v in row] for row in rows], 10 + 3 * q))
        comment = 'title of the input system'
        box = np.array([[SymReal(v) for v in row] for row in boxv], dtype=object)
        system = FakeSystem(first, mols, comment, box)
        man = Manager(system)
        given = [sp for bit, sp in ((1, 'A'), (2, 'B')) if ends & bit]
        if partial_mode:
            # history: ends for a first subset, maps calculated, then a further species receives its end molecule
            if len(given) < 2:
                raise core_PathAbort('needs two species with end molecules')
            man.add_end_molecules(end_mol(given[0]))
            man.calculate_exchange_maps(scale_factor=SymReal(s))
            man.add_end_molecules(end_mol(given[1]))
        else:
            man.add_end_molecules(*[end_mol(sp) for sp in given])
        if missing_mode:
            # maps deliberately not calculated (or calculated for nobody)
            try:
                man.extrapolate_system('out/path.gro')
                return ('no-error', given, seq, list(writes))
            except SystemError:
                return ('SystemError', given, seq, list(writes))
        man.calculate_exchange_maps(scale_factor=SymReal(s))
        try:
            man.extrapolate_system('out/path.gro')
            err = None
        except SystemError as e:
            err = e
        except Exception as e:       # any other failure of the real code is a finding, not a harness crash
            err = RuntimeError('%s: %s' % (type(e).__name__, e))
        return ('done', given, seq, list(writes), err, man, mols, comment, box)

    for ctx, res, exc in explore(run, max_paths=3000):
        st['paths'] += 1
        if res is None and partial_mode:
            continue
        if res is None:
            r, secs, m = ctx.reachable(cap)
            records.append({'name': 'path%d aborted (%r): infeasible under the preconditions' % (st['paths'], exc), 'status': 'unsat' if r == 'unsat' else ('unknown' if r == 'unknown' else 'sat'),
                            'secs': secs, 'witness': None if r != 'sat' else {'kind': 'extrapolate', 'what': 'abort', 'seq': None, 'given': None}})
            continue
        problems = []
        if res[0] in ('no-error', 'SystemError'):
            kind, given, seq, wr = res
            tag = 'species %s, ends for %s, %s' % (seq, given, 'maps calculated before the last end molecule was attached' if partial_mode else 'maps not calculated')
            if kind != 'SystemError':
                problems.append('extrapolation before the maps exist did not raise')
            if wr:
                problems.append('the output file was opened although the request was refused')
            rec = {'name': tag + ': SystemError and no file opened', 'status': 'unsat' if not problems else 'sat', 'secs': 0}
            if problems:
                rec['witness'] = {'kind': 'extrapolate', 'seq': seq, 'given': given, 'what': '; '.join(problems), 'mode': 'partial' if partial_mode else 'missing'}
            records.append(rec)
            nontrivial.append(tag)
            continue
        _, given, seq, wr, err, man, mols, comment, box = res
        tag = 'molecules %s, end molecules for %s' % (''.join(seq), given)
        nontrivial.append(tag)
        if not given:
            if not isinstance(err, SystemError) or wr:
                problems.append('nothing to map: expected SystemError and no file')
        else:
            if err is not None:
                problems.append('%s although every attached species has its map: %s' % (type(err).__name__, err))
            elif len(wr) != 1:
                problems.append('%d output files opened' % len(wr))
            else:
                w = wr[0]
                if w.path != 'out/path.gro' or 'w' not in w.mode:
                    problems.append('opened %r in mode %r' % (w.path, w.mode))
                if w.comment is not comment:
                    problems.append('title not forwarded')
                if w.box_matrix is not box:
                    problems.append('box not forwarded')
                want = []
                for q, sp in enumerate(seq):
                    if sp in given:
                        out = man.molecule_correspondence[SPECIES[sp]['name']].exchange_map(mols[q])
                        for a in out:
                            want.append((mols[q].resids[0], a.resname, a.name, [expr(c) for c in a.position]))
                if len(w.lines) != len(want):
                    problems.append('%d records written, %d expected (sum of the target sizes of the mapped molecules)' % (len(w.lines), len(want)))
                else:
                    claims = []
                    for i, (line, (rid, rn, an, pos)) in enumerate(zip(w.lines, want)):
                        if line[0] != rid or line[1] != rn or line[2] != an:
                            problems.append('record %d is %r, expected residue %d %s %s' % (i, line[:4], rid, rn, an)); break
                        if line[3] != i + 1:
                            problems.append('record %d carries atom number %r' % (i, line[3])); break
                        if len(line) != 7:
                            problems.append('record %d has %d fields' % (i, len(line))); break
                        claims += [expr(line[4 + c]) == pos[c] for c in range(3)]
                    if claims and not problems:
                        ident = all(z3.eq(z3.simplify(c.arg(0)), z3.simplify(c.arg(1))) for c in claims)
                        if not ident:
                            r, secs, mo = ctx.prove(z3.And(*claims), cap)
                            rec = {'name': tag + ': written coordinates = exchange map applied to the input molecule', 'status': r, 'secs': secs}
                            if r == 'sat':
                                rec['witness'] = {'kind': 'extrapolate', 'seq': seq, 'given': given, 'what': 'coordinates differ'}
                            records.append(rec)
        rec = {'name': tag + ': exactly the mapped molecules in input order, numbering 1..N, residue numbers of the input, title and box forwarded',
               'status': 'unsat' if not problems else 'sat', 'secs': 0}
        if problems:
            rec['witness'] = {'kind': 'extrapolate', 'seq': seq, 'given': given, 'what': '; '.join(problems)[:300]}
        records.append(rec)
        if len(samples) < 3:
            samples.append({'molecules': seq, 'ends': given, 'records_written': len(wr[0].lines) if wr else 0})
        st['queries'] += ctx.queries; st['solver_s'] += ctx.solver_time
    records.append({'name': 'reachability-twin', 'status': 'twin', 'secs': 0})
    return {'records': records, 'paths': st['paths'], 'queries': st['queries'], 'solver_s': st['solver_s'], 'samples': samples, 'nontrivial': nontrivial}


def replay(w):
    """Concrete: real files on disk, the real System / Manager / writer, output re-read with GroFile."""
    import os
    import tempfile
    import shutil
    from symx.files import write_gro_text
    from gaddlemaps import Manager
    from gaddlemaps.components import Molecule
    from gaddlemaps.parsers import GroFile
    seq, given = w.get('seq') or ['A', 'B', 'C', 'A'], w.get('given') if w.get('given') is not None else ['A', 'B']
    d = tempfile.mkdtemp(prefix='c05-')
    try:
        def itp(path, name, atoms, bonds):
            lines = ['[ moleculetype ]', '%s 1' % name, '', '[ atoms ]'] + ['%d T 1 %s %s %d 0.0' % (i + 1, rn, an, i + 1) for i, (an, rn) in enumerate(atoms)]
            lines += ['', '[ bonds ]'] + ['%d %d 1' % (a + 1, b + 1) for a, b in bonds] + ['']
            open(path, 'w').write('\n'.join(lines))
        rs = np.random.RandomState(2)
        recs, aid = [], 1
        for q, sp in enumerate(seq):
            for an, rn in SPECIES[sp]['ref']:
                x = rs.uniform(0, 3, 3)
                recs.append([10 + 3 * q, rn, an, aid, round(x[0], 3), round(x[1], 3), round(x[2], 3)]); aid += 1
        sysp = os.path.join(d, 'sys.gro')
        open(sysp, 'w').write(write_gro_text(recs, comment='title of the input system', box=(3.0, 4.0, 5.0)))
        itps = []
        for sp in sorted(set(seq)):
            p = os.path.join(d, sp + '_cg.itp'); itp(p, SPECIES[sp]['name'], SPECIES[sp]['ref'], SPECIES[sp]['refbonds']); itps.append(p)
        man = Manager.from_files(sysp, *itps)
        ends = {}
        for sp in given:
            if sp not in seq:
                continue
            v = SPECIES[sp]
            pi, pg = os.path.join(d, sp + '_aa.itp'), os.path.join(d, sp + '_aa.gro')
            itp(pi, v['name'], v['tgt'], v['tgtbonds'])
            open(pg, 'w').write(write_gro_text([[1, rn, an, i + 1, 0.11 * i + 0.05, 0.07 * i * i, 0.13 * (i % 2) + 0.02] for i, (an, rn) in enumerate(v['tgt'])]))
            ends[sp] = Molecule.from_files(pg, pi)
        if w.get('mode') == 'partial' and len(ends) >= 2:
            first, *rest = list(ends)
            man.add_end_molecule(ends[first]); man.calculate_exchange_maps(scale_factor=0.5)
            for sp in rest:
                man.add_end_molecule(ends[sp])
        else:
            for sp in ends:
                man.add_end_molecule(ends[sp])
        outp = os.path.join(d, 'out.gro')
        bad = []
        if w.get('mode') in ('missing', 'partial'):
            try:
                man.extrapolate_system(outp); bad.append('no SystemError before the maps exist')
            except SystemError:
                pass
            if os.path.exists(outp):
                bad.append('output file created although the request was refused')
            return {'reproduced': bool(bad), 'what': 'extrapolate_system: ' + '; '.join(bad), 'detail': {}}
        man.calculate_exchange_maps(scale_factor=0.5)
        mapped = [sp for sp in seq if sp in given]
        if not mapped:
            try:
                man.extrapolate_system(outp); bad.append('nothing to map but no error')
            except SystemError:
                pass
            return {'reproduced': bool(bad), 'what': 'extrapolate_system: ' + '; '.join(bad), 'detail': {}}
        try:
            man.extrapolate_system(outp)
        except Exception as e:
            return {'reproduced': True, 'what': 'extrapolate_system (molecules %s, ends %s): raised %s: %s' % (''.join(seq), given, type(e).__name__, e), 'detail': {}}
        g = GroFile(outp)
        got = g.readlines()
        want = []
        for m in man.system:
            sp = [k for k, v in SPECIES.items() if v['name'] == m.name][0]
            if sp in given:
                out = man.molecule_correspondence[m.name].exchange_map(m)
                want += [(m.resids[0], a.resname, a.name, tuple(a.position)) for a in out]
        if len(got) != len(want):
            bad.append('%d records written, %d expected' % (len(got), len(want)))
        else:
            for i, (r, (rid, rn, an, pos)) in enumerate(zip(got, want)):
                if (r[0], r[1], r[2], r[3]) != (rid, rn, an, i + 1):
                    bad.append('record %d is %r, expected (%d, %s, %s, %d)' % (i, r[:4], rid, rn, an, i + 1)); break
                if max(abs(a - b) for a, b in zip(r[4:7], pos)) > 6e-4:
                    bad.append('record %d coordinates differ from the exchange map' % i); break
        if g.comment.strip() != 'title of the input system':
            bad.append('title lost')
        if np.abs(g.box_matrix - np.diag([3.0, 4.0, 5.0])).max() > 5e-6:
            bad.append('box lost')
        g.close()
        return {'reproduced': bool(bad), 'what': 'extrapolate_system (molecules %s, ends %s): %s' % (''.join(seq), given, '; '.join(bad)), 'detail': {}}
    finally:
        shutil.rmtree(d, ignore_errors=True)
