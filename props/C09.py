"""C09 - Monte-Carlo search: consistent energies, Metropolis rule, exact stop.
Real gaddlemaps._backend._minimize_molecules and accept_metropolis with every random draw symbolic; the overlap
measure is an uninterpreted positive energy per evaluated configuration (the real one is C08)."""
import itertools
import numpy as np
import z3
from symx.core import twin_record as core_twin

ID = 'C09'
FUNCTIONS = ['gaddlemaps._backend:_minimize_molecules', 'gaddlemaps._backend:accept_metropolis', 'gaddlemaps._auxilliary:rotation_matrix']
EXPLANATION = ('The real loop runs with np.random.choice / normal / uniform / rand replaced by fresh symbolic draws and Chi2Calculator replaced by '
               'an uninterpreted energy: every evaluated configuration gets a fresh positive real.  Every path through at most K loop '
               'iterations is explored (which move, which acceptance branch, improvement or not).  Along each path the harness replays the '
               'specified bookkeeping (held configuration, held energy, best energy, counter) and the solver decides: the pair handed to the '
               'acceptance rule is (E(held), E(proposal)); the real accept_metropolis accepts iff e1 <= e0 or u <= 0.01*e0/e1; each proposal is '
               'held + d, (held - centroid).R + centroid with R the real rotation_matrix of the drawn axis/angle, or the single-atom move '
               'of held, and its kind is an enabled one; a rejected proposal leaves held configuration and energy unchanged; the loop stops exactly '
               'when the counter of consecutive non-improving steps reaches n_steps (reset iff a new strict minimum); the returned array is the '
               'last accepted configuration.')
BOUNDS = {'quick': {'n_steps': '1, 2, 3', 'iterations': '<= 3 per path (longer paths are cut and counted)', 'deformation types': '{0}, {1}, {2}, {0,1}, {0,1,2} (the last two with <= 2 iterations)',
                    'mobile molecule': '2 atoms'},
          'thorough': {'iterations': '<= 4', 'deformation types': 'all non-empty subsets'}}
OUTSIDE = ['step budgets up to 2000 (the bookkeeping is iteration-local: every iteration is checked from the symbolic state left by the previous ones)',
           'the value of the overlap measure (C08) and the geometry of the single-atom move (C07)', 'the distribution of the random draws']
STUBS = ['CrossHair harness chx/c09.py: real accept_metropolis on symbolic floats incl. NaN (np.random.rand returns the symbolic u)', 'Chi2Calculator -> uninterpreted positive energy per evaluated configuration', 'move_mol_atom -> logged stub returning a fresh configuration',
         'np.random.* -> fresh symbolic draws', 'progress output (sys.stdout.write of a formatted float) -> swallowed; the formatted number is a placeholder']
ASSUMPTIONS = ['energies > 0', 'exact real arithmetic']
CASE_TIMEOUT = {'quick': 900, 'thorough': 3000}


def cases(tier):
    cs = []
    K = 3 if tier == 'quick' else 4
    sims = [(0,), (1,), (2,), (0, 1), (0, 1, 2)] if tier == 'quick' else [s for l in (1, 2, 3) for s in itertools.combinations((0, 1, 2), l)]
    for sim in sims:
        for n_steps in (1, 2, 3):
            k = K if len(sim) == 1 else (2 if tier == 'quick' else 3)
            if n_steps > k:
                continue
            cs.append({'name': 'sim%s/n_steps%d/K%d' % (''.join(map(str, sim)), n_steps, k), 'sim': list(sim), 'n_steps': n_steps, 'K': k})
    # the acceptance rule on symbolic floats, including a measure that is not a number (CrossHair)
    cs.append({'name': 'crosshair/metropolis_rule', 'fn': 'metropolis_rule', 'budget': 40 if tier == 'quick' else 200})
    return cs


def run_case(case):
    if case['name'].startswith('crosshair/'):
        from symx.chrun import run_crosshair
        return run_crosshair('chx/c09.py', case['fn'], case['budget'], kind='c09')
    from symx.core import explore, SymReal, SymBool, expr, Ctx, PathAbort
    import symx.core as core
    from symx import npx
    import gaddlemaps._backend as be
    import gaddlemaps._auxilliary as aux
    cap = 60000
    sim, n_steps, K = tuple(case['sim']), case['n_steps'], case['K']
    records, samples, nontrivial = [], [], []
    st = {'paths': 0, 'queries': 0, 'solver_s': 0.0, 'cut': 0}
    rnd = npx.RandomStub()
    npx.install(random=rnd, modules=['gaddlemaps._backend', 'gaddlemaps._auxilliary'])
    core.FLOAT_FALLBACK = float('nan')          # '%10.9f' % chi2 in the progress line

    class _Out:
        def write(self, s): pass
        def flush(self): pass

    class _Sys:
        stdout = _Out()
    be.sys = _Sys()
    real_accept = be.accept_metropolis
    real_rot = aux.rotation_matrix
    log = {}

    class Cut(PathAbort):
        pass

    class EnergyStub:
        def __init__(self, mol1, mol2, restriction):
            log['ctor'] = (mol1, mol2, restriction)

        def __call__(self, config):
            ctx = Ctx.cur
            if len(log['E']) > K:
                raise Cut('more than %d iterations' % K)
            e = ctx.freshvar('E')
            ctx.assume(e > 0)
            log['E'].append((config, e))
            return SymReal(e)
    be.Chi2Calculator = EnergyStub

    def accept_wrapper(e0, e1, acceptance=0.01):
        mark = len(Ctx.cur.log)
        res = real_accept(e0, e1, acceptance) if acceptance != 0.01 else real_accept(e0, e1)
        dec = bool(res)
        draws = [l[2] for l in Ctx.cur.log[mark:] if l[0] == 'draw' and l[1] == 'rand']
        log['accept'].append((e0, e1, dec, draws))
        return dec
    be.accept_metropolis = accept_wrapper

    def move_stub(positions, bonds_info, sigma_scale=0.5, **kw):
        out = np.array([[SymReal(Ctx.cur.freshvar('moved')) for _ in range(3)] for _ in range(len(positions))], dtype=object)
        log['moves'].append((positions, bonds_info, sigma_scale, out))
        return out
    be.move_mol_atom = move_stub

    def rot_wrapper(axis, theta):
        R = real_rot(axis, theta)
        log['rot'].append((axis, theta, R))
        return R
    be.rotation_matrix = rot_wrapper

    X0v = [[z3.Real('x%d_%d' % (i, k)) for k in range(3)] for i in range(2)]

    def run(ctx):
        log.update(E=[], accept=[], moves=[], rot=[], ctor=None)
        X0 = np.array([[SymReal(v) for v in row] for row in X0v], dtype=object)
        F = np.array([[SymReal(z3.Real('f%d_%d' % (i, k))) for k in range(3)] for i in range(2)], dtype=object)
        bonds = {0: [(1, SymReal(z3.Real('b01')))], 1: [(0, SymReal(z3.Real('b01')))]}
        mark = len(ctx.log)
        # the centre argument is an arbitrary symbolic point: rotations must use the centroid of the held configuration, whatever the caller passes
        com_arg = np.array([SymReal(z3.Real('com%d' % k)) for k in range(3)], dtype=object)
        ret = be._minimize_molecules(F, X0, com_arg, SymReal(z3.Real('sigma')), n_steps, [(0, 1)], bonds, SymReal(z3.Real('width')), sim)
        draws = [l for l in ctx.log[mark:] if l[0] in ('draw', 'normal-args')]
        return ret, X0, F, bonds, draws, {k: list(v) if isinstance(v, list) else v for k, v in log.items()}

    def entailed(ctx, claim):
        r, _, _ = ctx.prove(claim, cap)
        return r == 'unsat'

    for ctx, res, exc in explore(run, max_paths=20000):
        st['paths'] += 1
        pidx = st['paths']
        if res is None:
            if isinstance(exc, Cut):
                st['cut'] += 1
                continue
            if isinstance(exc, core.SymZeroDivision):
                st['degenerate'] = st.get('degenerate', 0) + 1      # rotation axis draw of zero length / zero energy ratio: probability-zero draws
                continue
            records.append({'name': 'path%d aborted: %r' % (pidx, exc), 'status': 'error', 'secs': 0, 'detail': repr(exc)})
            continue
        nontrivial.append('path%d' % pidx)
        ret, X0, F, bonds, draws, lg = res
        if pidx == 1:
            records.append(core_twin(ctx, cap))
        problems, unknowns = [], []
        E, acc = lg['E'], lg['accept']
        if lg['ctor'] is None or lg['ctor'][0] is not F or lg['ctor'][2] != [(0, 1)]:
            problems.append('energy functional not built from the fixed coordinates / restraints given')
        if not E or E[0][0] is not X0:
            problems.append('first energy is not that of the initial configuration')
        held, e_held = X0, (E[0][1] if E else None)
        e_min, counter = e_held, 0
        it = 0
        choice_draws = [d for d in draws if d[0] == 'draw' and d[1] == 'choice']
        norm_draws = [d for d in draws if d[0] == 'draw' and d[1] == 'norm']
        unif_draws = [d for d in draws if d[0] == 'draw' and d[1] == 'unif']
        ni = ui = mi = ri = 0
        stopped_early = False
        for it in range(len(acc)):
            if counter >= n_steps:
                problems.append('iteration %d executed although %d consecutive non-improving steps had elapsed' % (it, counter))
                break
            if it + 1 >= len(E):
                problems.append('iteration %d: proposal not evaluated' % it); break
            prop, e_prop = E[it + 1]
            kind = choice_draws[it][2] if it < len(choice_draws) else None
            if kind not in sim:
                problems.append('iteration %d: move kind %r is not an enabled deformation type %r' % (it, kind, sim))
            # the proposal is the specified transformation of the held configuration
            if kind == 0:
                d = norm_draws[ni][2]; ni += 1
                ok = all(z3.eq(z3.simplify(expr(prop[i][k])), z3.simplify(expr(held[i][k]) + expr(d[k]))) for i in range(2) for k in range(3)) or \
                    entailed(ctx, z3.And(*[expr(prop[i][k]) == expr(held[i][k]) + expr(d[k]) for i in range(2) for k in range(3)]))
                if not ok:
                    problems.append('iteration %d: translation proposal is not held + d' % it)
            elif kind == 1:
                axis = unif_draws[ui][2]; ui += 1
                theta = norm_draws[ni][2]; ni += 1
                axis_r, theta_r, R = lg['rot'][ri]; ri += 1
                okargs = all(a is b for a, b in zip(axis_r, axis)) and theta_r is theta
                com = [sum(expr(held[i][k]) for i in range(2)) / 2 for k in range(3)]
                want = [[com[k] + sum((expr(held[i][q]) - com[q]) * expr(R[q][k]) for q in range(3)) for k in range(3)] for i in range(2)]
                ok = entailed(ctx, z3.And(*[expr(prop[i][k]) == want[i][k] for i in range(2) for k in range(3)]))
                if not (ok and okargs):
                    problems.append('iteration %d: rotation proposal is not (held - centroid).R(axis draw, angle draw) + centroid' % it)
            elif kind == 2:
                inp, binfo, sig, out = lg['moves'][mi]; mi += 1
                if inp is not held or out is not prop or binfo is not bonds:
                    problems.append('iteration %d: single-atom move not applied to the held configuration / bond table' % it)
            # the acceptance rule is consulted with (E(held), E(proposal))
            a0, a1, dec, udraws = acc[it]
            if not (z3.eq(expr(a0), e_held) and z3.eq(expr(a1), e_prop)):
                problems.append('iteration %d: acceptance rule consulted with (%s, %s) instead of (E(held)=%s, E(proposal)=%s)' % (it, expr(a0), expr(a1), e_held, e_prop))
            # Metropolis rule: accepted iff e1 <= e0 or u <= 0.01 e0/e1
            if udraws:
                u = expr(udraws[0])
                rule = z3.Or(e_prop <= e_held, u * e_prop <= core.realval(0.01) * e_held)     # 0.01 as its binary64 value
            else:
                rule = e_prop <= e_held
            want_dec = entailed(ctx, rule)
            want_not = entailed(ctx, z3.Not(rule)) if not want_dec else False
            if not (want_dec or want_not):
                unknowns.append('iteration %d: acceptance rule undecided on this path' % it)
            elif want_dec != dec:
                problems.append('iteration %d: proposal %s although the Metropolis rule says %s' % (it, 'accepted' if dec else 'rejected', 'accept' if want_dec else 'reject'))
            if not udraws and not entailed(ctx, e_prop <= e_held):
                problems.append('iteration %d: a worse proposal was decided without drawing a random number' % it)
            # bookkeeping
            if dec:
                held, e_held = prop, e_prop
                if entailed(ctx, e_held < e_min):
                    e_min, counter = e_held, 0
                elif entailed(ctx, e_held >= e_min):
                    counter += 1
                else:
                    unknowns.append('iteration %d: improvement undecided' % it); break
            else:
                counter += 1
        else:
            if counter != n_steps:
                problems.append('search stopped after %d iterations with %d consecutive non-improving steps (budget %d)' % (len(acc), counter, n_steps))
        if ret is not held:
            which = [i for i, (c, _) in enumerate(E) if c is ret]
            problems.append('returned array is evaluated configuration %s, not the last accepted one' % which)
        if len(E) != len(acc) + 1:
            problems.append('%d energy evaluations for %d iterations' % (len(E), len(acc)))
        tag = 'path%d (%d iterations, moves %s, decisions %s)' % (pidx, len(acc), [c[2] for c in choice_draws], ['A' if a[2] else 'R' for a in acc])
        rec = {'name': tag + ': energies, Metropolis rule, proposals, bookkeeping, stop and return value as specified',
               'status': 'sat' if problems else ('unknown' if unknowns else 'unsat'), 'secs': 0, 'detail': '; '.join(unknowns)}
        if problems:
            m = ctx.reachable(cap)[2]
            rec['witness'] = {'kind': 'mc', 'sim': list(sim), 'n_steps': n_steps, 'problems': problems[:3],
                              'choices': [int(c[2]) for c in choice_draws], 'decisions': [bool(a[2]) for a in acc],
                              'energies': [float(core.model_value(m, e, 12)) for _, e in E] if m is not None else None}
        records.append(rec)
        if len(samples) < 3:
            samples.append({'moves': [c[2] for c in choice_draws], 'decisions': ['A' if a[2] else 'R' for a in acc], 'path_condition': [str(p)[:70] for p in ctx.pc][:6]})
        st['queries'] += ctx.queries; st['solver_s'] += ctx.solver_time
    records.append({'name': 'paths cut at the iteration bound K=%d (outside the claim): %d' % (K, st['cut']), 'status': 'skipped', 'secs': 0})
    return {'records': records, 'paths': st['paths'], 'queries': st['queries'], 'solver_s': st['solver_s'], 'samples': samples, 'nontrivial': nontrivial}


def replay(w):
    """Concrete: drive the real loop with a scripted random stream / energy table that realises the path, observing it
    through the module-level names the loop resolves at call time (Chi2Calculator, accept_metropolis, move_mol_atom)."""
    if w.get('kind') == 'c09':
        from symx.chrun import replay_crosshair
        return replay_crosshair(w)
    import gaddlemaps._backend as be
    sim, n_steps = tuple(w['sim']), w['n_steps']
    choices, decisions, energies = w['choices'], w['decisions'], w.get('energies')
    if any('proposal' in p for p in w.get('problems', [])):
        # geometry of the proposals: observe the configurations the real loop evaluates (through the Chi2Calculator name it
        # resolves at call time), with the centre argument deliberately different from the centroid
        seen = []

        class E:
            def __init__(self, *a): pass
            def __call__(self, cfg):
                seen.append(np.array(cfg, dtype=float).copy()); return 10.0 - len(seen)       # always improving: every proposal accepted
        saved = be.Chi2Calculator
        be.Chi2Calculator = E
        X0 = np.array([[0.0, 0.0, 0.0], [0.3, 0.1, 0.0], [0.5, -0.2, 0.4]])
        bonds = {0: [(1, 0.3162)], 1: [(0, 0.3162), (2, 0.5385)], 2: [(1, 0.5385)]}
        import io, contextlib
        bad = []
        st_ = np.random.get_state(); np.random.seed(4)
        try:
            for kind in sim:
                del seen[:]
                calls = [0]
                real_choice = np.random.choice
                with contextlib.redirect_stdout(io.StringIO()):
                    try:
                        be._minimize_molecules(None, X0.copy(), np.array([5.0, -3.0, 2.0]), 0.5, 1, [], bonds, 0.2, (kind,))
                    except Exception:
                        pass
                    if len(seen) > 6:
                        pass
                D = lambda A: np.array([[np.linalg.norm(A[i] - A[j]) for j in range(len(A))] for i in range(len(A))])
                for a, b in zip(seen, seen[1:4]):
                    if kind in (0, 1) and np.abs(D(a) - D(b)).max() > 1e-9:
                        bad.append('a %s proposal changes interatomic distances' % ('translation' if kind == 0 else 'rotation'))
                    if kind == 1 and np.abs(a.mean(axis=0) - b.mean(axis=0)).max() > 1e-9:
                        bad.append('a rotation proposal moves the centroid (rotation is not about the centroid of the held configuration)')
        finally:
            be.Chi2Calculator = saved
            np.random.set_state(st_)
        bad = sorted(set(bad))
        if bad:
            return {'reproduced': True, 'what': 'Monte-Carlo loop proposals: ' + '; '.join(bad), 'detail': {}}
    if not energies:
        return {'reproduced': False, 'what': 'no concrete energies in the witness', 'detail': {}}
    if w.get('_scale') is None:
        # the witness fixes the ORDER of the energies; the same scenario is replayed with the differences between the energies
        # scaled down (improvements far below the printed precision of the progress line) as well as at the witness scale
        last = None
        for sc in (1.0, 1e-6, 1e-12):
            w2 = dict(w, _scale=sc, energies=[energies[0] + (e - energies[0]) * sc for e in energies])
            try:
                last = replay(w2)
            except Exception as e:
                last = {'reproduced': False, 'what': 'replay failed: %r' % (e,), 'detail': {}}
            if last['reproduced']:
                last['what'] += ' (energy differences scaled by %g)' % sc
                return last
        return last
    trace = {'E': [], 'acc': [], 'choice_i': 0}

    class ScriptedE:
        def __init__(self, *a): pass
        def __call__(self, cfg):
            k = len(trace['E'])
            e = energies[k] if k < len(energies) else energies[-1] + 1.0 + k
            trace['E'].append((np.array(cfg, dtype=float).copy(), e))
            return e
    real_accept = be.accept_metropolis

    def acc(e0, e1, acceptance=0.01):
        k = len(trace['acc'])
        want = decisions[k] if k < len(decisions) else False
        # realise the recorded decision through the random number consumed by the real rule
        u = 0.0 if want else 1.0
        saved = np.random.rand
        np.random.rand = lambda *a: u
        try:
            r = bool(real_accept(e0, e1))
        finally:
            np.random.rand = saved
        trace['acc'].append((e0, e1, r))
        return r
    saved = (be.Chi2Calculator, be.accept_metropolis, np.random.choice)
    be.Chi2Calculator, be.accept_metropolis = ScriptedE, acc

    def choice(seq):
        k = trace['choice_i']; trace['choice_i'] += 1
        return choices[k] if k < len(choices) and choices[k] in seq else list(seq)[0]
    np.random.choice = choice
    X0 = np.array([[0.0, 0.0, 0.0], [0.3, 0.1, 0.0]])
    F = np.array([[1.0, 1.0, 1.0], [1.2, 0.9, 1.1]])
    bonds = {0: [(1, float(np.linalg.norm(X0[0] - X0[1])))], 1: [(0, float(np.linalg.norm(X0[0] - X0[1])))]}
    import io, contextlib
    bad = []
    try:
        with contextlib.redirect_stdout(io.StringIO()):
            ret = be._minimize_molecules(F, X0.copy(), X0.mean(axis=0), 0.5, n_steps, [(0, 1)], bonds, 0.2, sim)
    finally:
        be.Chi2Calculator, be.accept_metropolis, np.random.choice = saved
    E, A = trace['E'], trace['acc']
    held, e_held, e_min, counter = E[0][0], E[0][1], E[0][1], 0
    for it, (a0, a1, dec) in enumerate(A):
        if counter >= n_steps:
            bad.append('iteration %d executed after the budget of %d non-improving steps' % (it, n_steps)); break
        cfg, e = E[it + 1]
        if abs(a0 - e_held) > 0 or abs(a1 - e) > 0:
            bad.append('acceptance rule consulted with (%.6g, %.6g), held energy is %.6g, proposal %.6g' % (a0, a1, e_held, e))
        if dec:
            held, e_held = cfg, e
            if e_held < e_min:
                e_min, counter = e_held, 0
            else:
                counter += 1
        else:
            counter += 1
    else:
        if counter != n_steps:
            bad.append('stopped with %d consecutive non-improving steps, budget %d' % (counter, n_steps))
    if np.abs(np.asarray(ret, dtype=float) - held).max() > 0:
        bad.append('returned array is not the last accepted configuration')
    return {'reproduced': bool(bad), 'what': 'Monte-Carlo loop (moves %s, decisions %s, n_steps %d): %s' % (choices, decisions, n_steps, '; '.join(bad)[:300]), 'detail': {}}
