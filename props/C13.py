"""C13 - writing then reading a .gro file returns the same system.
AST->z3 kernels over the full integer range for the number wrap, the width / format inference arithmetic and the
atom-line offsets; CrossHair (bounded refuter, symbolic ints / short strings) on the real line encoder/decoder."""
import z3

ID = 'C13'
FUNCTIONS = ['gaddlemaps.parsers:GroFile.parse_atomlist', 'gaddlemaps.parsers:GroFile.parse_atomline',
             'gaddlemaps.parsers:GroFile.determine_format', 'gaddlemaps.parsers:GroFile.seek_atom',
             'gaddlemaps.parsers:GroFile._write_closing_info', 'gaddlemaps.parsers:GroFile._setup_write_file',
             'gaddlemaps.parsers:_validate_res_atom_numbers', 'gaddlemaps.parsers:dump_lattice_gro', 'gaddlemaps.parsers:extract_lattice_gro']
EXPLANATION = ('Integer kernels: the wrap expression of parse_atomlist, the width inference of determine_format, the expected line '
               'length of parse_atomline and the count back-fill offset of _write_closing_info are located in the current source by '
               'AST shape, translated to z3 Int arithmetic and decided for every integer in the stated range (not sampled); each '
               'translation is validated on every run by evaluating the real function and the z3 term on the same numbers.  '
               'String level: CrossHair executes the real parse_atomlist / parse_atomline / GroFile write-close-read on symbolic '
               'ints and short symbolic names under a time budget; "confirmed" and "no counterexample found" are reported separately.')
BOUNDS = {'files': 'write-close-read of 3-record files: 7 number classes x 7, 5 name pairs, velocities on/off, count declared/deferred, 4 box kinds, decimals 1..6 (symbolic choice integers); all 512 zero/non-zero patterns of a 3x3 box',
          'numbers': 'all integers in [0, 10^7] (kernels); CrossHair symbolic ints in the same range',
          'field width W': 'all W >= 6 (decimals >= 1) with and without velocities', 'names': '1..5 characters (CrossHair, bounded search)',
          'floats': 'fixed boundary set (x.xxx5 ties, negatives, width-filling values) - concrete'}
OUTSIDE = ['half-unit rounding of symbolic floats (format / float are C code: CrossHair realises them)', 'files longer than 3 records in the CrossHair round trip']
STUBS = ['none for the kernels (pure arithmetic)', 'CrossHair: real functions, in-memory/temporary files']
ASSUMPTIONS = ['str.format("{:5d}") of an integer in [0, 99999] has exactly 5 characters and int() inverts it (Python semantics, trusted)',
               'z3 Int div/mod = Python // and % for positive divisors']
CASE_TIMEOUT = {'quick': 400, 'thorough': 1500}


def cases(tier):
    cs = [{'name': 'kernel/wrap'}, {'name': 'kernel/format-inference'}, {'name': 'kernel/offsets'}]
    t = 40 if tier == 'quick' else 240
    for dec in (1, 2, 3, 4, 5, 6):
        cs.append({'name': 'file-roundtrip/decimals%d' % dec, 'dec': dec})
    cs.append({'name': 'box-patterns'})
    for fn in ('numbers_roundtrip', 'names_roundtrip', 'line_width_constant'):
        cs.append({'name': 'crosshair/' + fn, 'fn': fn, 'budget': t})
    return cs


def run_case(case):
    from symx import astk
    from symx.astk import NoMatch
    name = case['name']
    cap = 60000
    records, samples, nontrivial = [], [], []
    if name == 'kernel/wrap':
        from gaddlemaps.parsers import GroFile
        try:
            fn, src = astk.get_function_ast('gaddlemaps.parsers:GroFile.parse_atomlist')
            n = z3.Int('n')
            terms = {}
            for slot, srcname in ((0, 'atomlist[0]'), (3, 'atomlist[3]')):
                rhs = astk.find_assign(fn, 'atominfo[%d]' % slot)
                terms[slot] = (astk.to_z3(rhs, {srcname: n}), astk.ast.unparse(rhs))
        except NoMatch as e:
            return {'records': [{'name': 'wrap expression not found in parse_atomlist (%s)' % e, 'status': 'unknown', 'secs': 0}],
                    'paths': 0, 'queries': 0, 'solver_s': 0, 'samples': [], 'nontrivial': []}
        for slot, (w, text) in terms.items():
            what = 'residue number' if slot == 0 else 'atom number'
            # translator validation: the real function on concrete numbers vs the z3 term
            bad = None
            for v in (0, 1, 7, 99998, 99999, 100000, 100001, 199998, 199999, 200000, 1234567, 9999999, 10 ** 7):
                rec = [1, 'R', 'A', 1, 0.0, 0.0, 0.0]
                rec[slot] = v
                try:
                    real = int(GroFile.parse_atomlist(rec)[{0: slice(0, 5), 3: slice(15, 20)}[slot]])
                except ValueError:
                    real = None      # field overflowed its 5 columns: the slice is not the whole number
                s_ = z3.Solver(); s_.add(n == v); s_.check()
                model = s_.model().eval(w, model_completion=True).as_long()
                if real is not None and real != model:
                    bad = (v, real, model)
            records.append({'name': '%s: translator validation of "%s" against the real parse_atomlist' % (what, text),
                            'status': 'validated' if bad is None else 'error', 'secs': 0, 'detail': str(bad)})
            for nm, hyp, claim in (
                    ('%s that fits five digits is written unchanged: 0<=n<=99999 => w(n)=n' % what, [n >= 0, n <= 99999], w == n),
                    ('%s is wrapped into five columns: 0<=n<=10^7 => 0<=w(n)<=99999' % what, [n >= 0, n <= 10 ** 7], z3.And(w >= 0, w <= 99999))):
                r, secs, m = astk.decide(hyp, claim, cap)
                rec = {'name': nm, 'status': r, 'secs': secs}
                if r == 'sat':
                    rec['witness'] = {'kind': 'wrap', 'slot': slot, 'n': m.eval(n, model_completion=True).as_long()}
                records.append(rec)
                nontrivial.append(nm)
            s_ = z3.Solver(); s_.add(n >= 0, n <= 10 ** 7); r = str(s_.check())
            records.append({'name': 'reachability-twin', 'status': 'twin' if r == 'sat' else 'twin-fail', 'secs': 0})
            samples.append({'expression': text, 'z3': str(w)})
        return {'records': records, 'paths': 0, 'queries': 4, 'solver_s': 0, 'samples': samples, 'nontrivial': nontrivial}

    if name == 'kernel/format-inference':
        from gaddlemaps.parsers import GroFile
        try:
            fn, src = astk.get_function_ast('gaddlemaps.parsers:GroFile.determine_format')
            size, ndots, W = z3.Int('size'), z3.Int('ndots'), z3.Int('W')
            pyenv = {'cls.COORD_START': GroFile.COORD_START}
            nfig = astk.to_z3(astk.find_assign(fn, 'nfigures'), {'size': size, 'ndots': ndots}, pyenv)
            ndec = astk.to_z3(astk.find_assign(fn, 'ndecimals'), {'nfigures': nfig}, pyenv)
            # the error test:  if size != (cls.COORD_START + ndots * nfigures): raise
            err = None
            for node in astk.ast.walk(fn):
                if isinstance(node, astk.ast.If) and 'nfigures' in astk.ast.unparse(node.test) and 'size' in astk.ast.unparse(node.test):
                    err = astk.to_z3(node.test, {'size': size, 'ndots': ndots, 'nfigures': nfig}, pyenv)
            if err is None:
                raise NoMatch('width consistency test not found')
            fn2, _ = astk.get_function_ast('gaddlemaps.parsers:GroFile.parse_atomline')
            vel = z3.Int('vel')
            explen = astk.to_z3(astk.find_assign(fn2, 'expected_length'), {'space': W, "format_dict['velocities']": vel})
        except NoMatch as e:
            return {'records': [{'name': 'format arithmetic not found (%s)' % e, 'status': 'unknown', 'secs': 0}],
                    'paths': 0, 'queries': 0, 'solver_s': 0, 'samples': [], 'nontrivial': []}
        for v in (0, 1):
            nd = 3 * (1 + v)
            written = 20 + 3 * W * (1 + v)       # 5+5+5+5 columns + 3(1+vel) floats of width W (format semantics)
            hyp = [W >= 6, size == written, ndots == nd]
            for nm, claim in (('vel=%d: reader infers width W from a line written with width W' % v, nfig == W),
                              ('vel=%d: reader accepts the line (width consistency test false)' % v, z3.Not(err)),
                              ('vel=%d: inferred decimals = W - 5' % v, ndec == W - 5),
                              ('vel=%d: parse_atomline expects exactly the written length' % v, z3.substitute(explen, (vel, z3.IntVal(v))) == size)):
                r, secs, m = astk.decide(hyp, claim, cap)
                rec = {'name': nm, 'status': r, 'secs': secs}
                if r == 'sat':
                    rec['witness'] = {'kind': 'format', 'W': m.eval(W, model_completion=True).as_long(), 'vel': v}
                records.append(rec); nontrivial.append(nm)
            # a line whose floats do not all have the same width is refused
            k = z3.Int('k')
            r, secs, m = astk.decide([W >= 6, k >= 1, k < nd, size == 20 + nd * W + k, ndots == nd], err, cap)
            records.append({'name': 'vel=%d: a line that is k in [1, ndots) characters too long is refused' % v, 'status': r, 'secs': secs})
        # translator validation against the real determine_format
        bad = None
        for Wv in (6, 8, 9, 11):
            for v in (0, 1):
                line = ' ' * 20 + ('%*.*f' % (Wv, Wv - 5, 1.5)) * (3 * (1 + v))
                f = GroFile.determine_format(line)
                if f['position'] != (Wv, Wv - 5) or bool(f['velocities']) != bool(v):
                    bad = (Wv, v, f)
        records.append({'name': 'translator validation against the real determine_format', 'status': 'validated' if bad is None else 'error', 'secs': 0, 'detail': str(bad)})
        samples.append({'nfigures': str(nfig), 'error_test': str(err), 'expected_length': str(explen)})
        return {'records': records, 'paths': 0, 'queries': 10, 'solver_s': 0, 'samples': samples, 'nontrivial': nontrivial}

    if name == 'kernel/offsets':
        from gaddlemaps.parsers import GroFile
        try:
            fn, _ = astk.get_function_ast('gaddlemaps.parsers:GroFile._write_closing_info')
            seek_arg = None
            for node in astk.ast.walk(fn):
                if isinstance(node, astk.ast.Call) and astk.ast.unparse(node.func) == 'self._file.seek' and 'NUMBER_FIGURES' in astk.ast.unparse(node):
                    seek_arg = node.args[0]
            if seek_arg is None:
                raise NoMatch('back-fill seek not found')
            init, C = z3.Int('init'), z3.Int('C')
            off = astk.to_z3(seek_arg, {'self._init_position': init}, {'self.NUMBER_FIGURES': GroFile.NUMBER_FIGURES})
            fn2, _ = astk.get_function_ast('gaddlemaps.parsers:GroFile.seek_atom')
            seek2 = None
            for node in astk.ast.walk(fn2):
                if isinstance(node, astk.ast.Call) and astk.ast.unparse(node.func) == 'self._file.seek':
                    seek2 = node.args[0]
            idx, bs = z3.Int('index'), z3.Int('bytesize')
            off2 = astk.to_z3(seek2, {'self._init_position': init, 'index': idx, 'self._atomline_bytesize': bs})
        except NoMatch as e:
            return {'records': [{'name': 'offset arithmetic not found (%s)' % e, 'status': 'unknown', 'secs': 0}],
                    'paths': 0, 'queries': 0, 'solver_s': 0, 'samples': [], 'nontrivial': []}
        NF = GroFile.NUMBER_FIGURES
        # header = comment (C chars) + newline + NF blanks + newline ; init = its length
        r, secs, m = astk.decide([C >= 1, init == C + 1 + NF + 1], off == C + 1, cap)
        records.append({'name': 'count back-fill seeks to the first column of the placeholder line (offset = len(comment)+1)', 'status': r, 'secs': secs,
                        'witness': None})
        r, secs, m = astk.decide([init >= 0, bs >= 1, idx >= 0], z3.And(off2 == init + idx * bs), cap)
        records.append({'name': 'seek_atom(k) = header + k * line size', 'status': r, 'secs': secs})
        j = z3.Int('j')
        r, secs, m = astk.decide([init >= 0, bs >= 1, idx >= 0, j >= 0, j != idx],
                                 z3.substitute(off2, (idx, j)) != off2, cap)
        records.append({'name': 'distinct atom indices seek to distinct, non-overlapping offsets', 'status': r, 'secs': secs})
        nontrivial += ['backfill', 'seek', 'distinct']
        samples.append({'backfill_offset': str(off), 'seek_atom': str(off2)})
        return {'records': records, 'paths': 0, 'queries': 3, 'solver_s': 0, 'samples': samples, 'nontrivial': nontrivial}

    if name == 'box-patterns':
        return _box_patterns(case)
    if name.startswith('file-roundtrip'):
        return _file_roundtrip(case)
    from symx.chrun import run_crosshair
    return run_crosshair('chx/c13.py', case['fn'], case['budget'], kind='c13')


NUMS = [0, 1, 9999, 99999, 100000, 100001, 1234567]
NAMES = [('A', 'B'), ('RESID', 'ATOM1'), ('r-5', '#x1'), ('W', 'O12'), ('LONGNAME', 'ATOMNAME9')]
BOXES = [('vector', [3.0, 4.0, 5.0]), ('diagonal', [[2.5, 0, 0], [0, 3.25, 0], [0, 0, 10.0]]), ('triclinic', [[3.0, 0, 0], [0.5, 4.0, 0], [0.25, 0.75, 5.0]]),
         ('tiny', [0.00001, 0.5, 123.45678])]


def _floats(dec):
    h = 0.5 * 10 ** (-dec)
    big = 10 ** (4 - 1) - 1 + 0.25          # fills the integer part of the narrowest field (width = dec + 5 => 4 characters before the dot incl. sign)
    return [0.0, 1.0 + h, -(1.0 + h), h / 2, -h / 2, 0.123456789, big, -(10 ** 2 + 0.5), 2.0 - h / 4]


def _roundtrip_once(dec, ni, nj, name_i, vel, declare, box_i, recs_n=3):
    """write with the real GroFile, read back with the real GroFile; -> list of problems"""
    import os
    import tempfile
    import numpy as np
    from gaddlemaps.parsers import GroFile
    import warnings
    W = dec + 5
    fl = _floats(dec)
    recs = []
    for r in range(recs_n):
        rec = [NUMS[(ni + r) % len(NUMS)], NAMES[name_i][0], NAMES[(name_i + r) % len(NAMES)][1], NUMS[(nj + 2 * r) % len(NUMS)],
               fl[(3 * r) % len(fl)], fl[(3 * r + 1) % len(fl)], fl[(3 * r + 2) % len(fl)]]
        if vel:
            rec += [0.1 + r, -fl[(r + 4) % len(fl)] / 10, fl[(r + 5) % len(fl)] / 100]
        recs.append(rec)
    d = tempfile.mkdtemp(prefix='c13f-')
    p = os.path.join(d, 'rt.gro')
    problems = []
    try:
        with warnings.catch_warnings():
            warnings.simplefilter('ignore')
            f = GroFile(p, 'w')
            if declare:
                f.natoms = len(recs)
            title = 'Title with spaces, t= 1.0' if (ni + nj) % 2 == 0 else 'L\u00edquido i\u00f3nico 25 \u00b0C'      # a non-ASCII title every other file
            f.comment = title
            f.box_matrix = np.array(BOXES[box_i][1], dtype=float)
            f.position_format = (W, dec)
            for rec in recs:
                f.writeline(list(rec))
            f.close()
        lines = open(p, encoding='utf-8').read().split('\n')
        atom_lines = lines[2:2 + len(recs)]
        if len({len(l) for l in atom_lines}) != 1:
            problems.append('atom lines of different lengths %s' % [len(l) for l in atom_lines])
        elif len(atom_lines[0]) != 20 + 3 * W * (2 if vel else 1):
            problems.append('atom line has %d characters, expected %d' % (len(atom_lines[0]), 20 + 3 * W * (2 if vel else 1)))
        g = GroFile(p)
        back = g.readlines()
        if g.natoms != len(recs) or len(back) != len(recs):
            problems.append('%d records written, natoms=%r, %d read' % (len(recs), g.natoms, len(back)))
        if g.comment.rstrip('\n') != title:
            problems.append('title read back as %r' % g.comment)
        B = np.array(BOXES[box_i][1], dtype=float)
        B = np.diag(B) if B.shape == (3,) else B
        if np.abs(g.box_matrix - B).max() > 5e-6:
            problems.append('box read back as %s' % g.box_matrix.tolist())
        for rec, b in zip(recs, back):
            if b[1] != rec[1][:5] or b[2] != rec[2][:5]:
                problems.append('names %r %r read back as %r %r' % (rec[1], rec[2], b[1], b[2]))
            for slot in (0, 3):
                if rec[slot] <= 99999 and b[slot] != rec[slot]:
                    problems.append('number %d read back as %d' % (rec[slot], b[slot]))
                if not 0 <= b[slot] <= 99999:
                    problems.append('number %d outside five columns' % b[slot])
            if len(b) != len(rec):
                problems.append('%d fields read, %d written' % (len(b), len(rec)))
            for x, y in zip(rec[4:7], b[4:7]):
                if abs(x - y) > 0.5 * 10 ** (-dec) * (1 + 1e-9) + 1e-12:
                    problems.append('coordinate %r read back as %r with %d decimals' % (x, y, dec))
            for x, y in zip(rec[7:], b[7:]):
                if abs(x - y) > 0.5 * 10 ** (-dec - 1) * (1 + 1e-9) + 1e-12:
                    problems.append('velocity %r read back as %r' % (x, y))
        g.close()
    except Exception as e:
        problems.append('%s: %s' % (type(e).__name__, e))
    finally:
        try:
            os.remove(p)
        except OSError:
            pass
        os.rmdir(d)
    return problems


def _file_roundtrip(case):
    """write-close-read of whole files through the real GroFile; the record contents (number classes, names, velocities,
    declared/deferred count, box kind) are chosen by symbolic integers"""
    from symx.core import explore, SymInt
    dec = case['dec']
    vs = {k: z3.Int(k) for k in ('ni', 'nj', 'name', 'vel', 'declare', 'box')}
    rng = {'ni': len(NUMS), 'nj': len(NUMS), 'name': len(NAMES), 'vel': 2, 'declare': 2, 'box': len(BOXES)}
    records, samples, nontrivial = [], [], []
    bad, cover, paths = None, [], 0

    def run(ctx):
        ch = {}
        for k in ('vel', 'declare', 'box', 'name', 'ni', 'nj'):
            ctx.assume(z3.And(vs[k] >= 0, vs[k] < rng[k]))
            ch[k] = SymInt(vs[k], 0, rng[k] - 1).concretize()
        return ch
    for ctx, ch, exc in explore(run, max_paths=20000):
        paths += 1
        cover.append(z3.And(*ctx.pc) if ctx.pc else z3.BoolVal(True))
        problems = _roundtrip_once(dec, ch['ni'], ch['nj'], ch['name'], ch['vel'], ch['declare'], ch['box'])
        if problems and bad is None:
            bad = dict(ch, dec=dec, problems=problems[:3])
        if len(samples) < 2:
            samples.append(dict(ch, decimals=dec))
    nontrivial.append('dec%d' % dec)
    rec = {'name': 'decimals=%d: every explored file (%d) is read back with the same records, numbers, names, coordinates within half a unit of the last decimal, box, title; equal line lengths' % (dec, paths),
           'status': 'unsat' if bad is None else 'sat', 'secs': 0}
    if bad:
        rec['witness'] = {'kind': 'file', **bad}
    records.append(rec)
    s = z3.Solver(); s.set('timeout', 60000)
    s.add(*[z3.And(vs[k] >= 0, vs[k] < rng[k]) for k in vs]); s.add(z3.Not(z3.Or(*cover)))
    r = str(s.check())
    records.append({'name': 'decimals=%d: explored paths exhaust the symbolic choices' % dec, 'status': 'unsat' if r == 'unsat' else 'unknown', 'secs': 0})
    return {'records': records, 'paths': paths, 'queries': 1, 'solver_s': 0, 'samples': samples, 'nontrivial': nontrivial}


BOX_BASE = [[3.0, 0.125, -0.25], [0.5, 4.0, 0.0625], [-0.75, 1.5, 5.0]]


def _box_once(bits):
    """3x3 box whose entry k (row-major) is BOX_BASE's when bit k is set and 0 otherwise, written by the real GroFile
    and read back -> list of problems"""
    import os
    import tempfile
    import warnings
    import numpy as np
    from gaddlemaps.parsers import GroFile, dump_lattice_gro, extract_lattice_gro
    B = np.array([[BOX_BASE[i][j] if bits[3 * i + j] else 0.0 for j in range(3)] for i in range(3)])
    problems = []
    try:
        back = extract_lattice_gro(dump_lattice_gro(B.copy()))
        if np.abs(back - B).max() > 5e-6:
            problems.append('dump_lattice_gro/extract_lattice_gro: %s read back as %s' % (B.tolist(), back.tolist()))
    except Exception as e:
        problems.append('%s: %s' % (type(e).__name__, e))
    d = tempfile.mkdtemp(prefix='c13b-')
    p = os.path.join(d, 'box.gro')
    try:
        with warnings.catch_warnings():
            warnings.simplefilter('ignore')
            f = GroFile(p, 'w')
            f.comment = 'box'
            f.box_matrix = B.copy()
            f.writeline([1, 'RES', 'AT', 1, 1.0, 2.0, 3.0])
            f.close()
            g = GroFile(p)
            got = np.array(g.box_matrix, dtype=float)
            g.close()
        if got.shape != (3, 3) or np.abs(got - B).max() > 5e-6:
            problems.append('file: box %s read back as %s' % (B.tolist(), got.tolist()))
    except Exception as e:
        problems.append('%s: %s' % (type(e).__name__, e))
    finally:
        try:
            os.remove(p)
        except OSError:
            pass
        os.rmdir(d)
    return problems


def _box_patterns(case):
    """which of the nine box entries are non-zero is a vector of symbolic 0/1 integers: every pattern is one path"""
    from symx.core import explore, SymInt
    bv = [z3.Int('nz%d' % k) for k in range(9)]
    bad, cover, paths, samples = None, [], 0, []

    def run(ctx):
        bits = []
        for v in bv:
            ctx.assume(z3.And(v >= 0, v <= 1))
            bits.append(SymInt(v, 0, 1).concretize())
        return bits
    for ctx, bits, exc in explore(run, max_paths=2000):
        paths += 1
        cover.append(z3.And(*ctx.pc) if ctx.pc else z3.BoolVal(True))
        problems = _box_once(bits)
        if problems and bad is None:
            bad = {'bits': bits, 'problems': problems[:2]}
        if len(samples) < 2:
            samples.append({'nonzero': bits})
    rec = {'name': 'every zero/non-zero pattern of the 3x3 box (%d patterns): box line written and read back gives the same box to 5e-6 (encoder/decoder and whole file)' % paths,
           'status': 'unsat' if bad is None else 'sat', 'secs': 0}
    if bad:
        rec['witness'] = {'kind': 'box', **bad}
    s = z3.Solver(); s.set('timeout', 60000)
    s.add(*[z3.And(v >= 0, v <= 1) for v in bv]); s.add(z3.Not(z3.Or(*cover)))
    r = str(s.check())
    return {'records': [rec, {'name': 'box patterns: explored paths exhaust the symbolic choices', 'status': 'unsat' if r == 'unsat' else 'unknown', 'secs': 0},
                        {'name': 'reachability-twin', 'status': 'twin', 'secs': 0}],
            'paths': paths, 'queries': 1, 'solver_s': 0, 'samples': samples, 'nontrivial': ['box-patterns']}


def replay(w):
    from gaddlemaps.parsers import GroFile
    if w['kind'] == 'box':
        problems = _box_once(w['bits'])
        return {'reproduced': bool(problems), 'what': 'gro box with non-zero pattern %s: %s' % (''.join(map(str, w['bits'])), '; '.join(problems)[:300]), 'detail': {}}
    if w['kind'] == 'file':
        problems = _roundtrip_once(w['dec'], w['ni'], w['nj'], w['name'], w['vel'], w['declare'], w['box'])
        return {'reproduced': bool(problems), 'what': 'gro file write-read (decimals %d, %s box, velocities %s, count %s): %s' % (
            w['dec'], BOXES[w['box']][0], bool(w['vel']), 'declared' if w['declare'] else 'deferred', '; '.join(problems)[:300]), 'detail': {}}
    if w['kind'] == 'wrap':
        n, slot = w['n'], w['slot']
        rec = [1, 'RES', 'AT', 1, 1.0, 2.0, 3.0]
        rec[slot] = n
        line = GroFile.parse_atomlist(rec)
        back = GroFile.parse_atomline(line)
        bad = []
        if len(line) != 44:
            bad.append('line widened to %d characters' % len(line))
        elif n <= 99999 and back[slot] != n:
            bad.append('number %d that fits five digits read back as %d' % (n, back[slot]))
        return {'reproduced': bool(bad), 'what': 'gro atom line (%s number): %s' % ('residue' if slot == 0 else 'atom', '; '.join(bad)), 'detail': {'line': line}}
    if w['kind'] == 'format':
        W, v = w['W'], w['vel']
        rec = [1, 'RES', 'AT', 1, 1.0, 2.0, 3.0] + ([0.1, 0.2, 0.3] if v else [])
        line = GroFile.parse_atomlist(rec, format_dict={'position': (W, W - 5), 'velocities': bool(v)})
        try:
            back = GroFile.parse_atomline(line)
            ok = back[:4] == tuple(rec[:4])
        except Exception as e:
            ok = False
        return {'reproduced': not ok, 'what': 'gro line with width %d not read back' % W, 'detail': {'line': line}}
    from symx.chrun import replay_crosshair
    return replay_crosshair(w)
