"""C03 - the exchange map is local and shape-preserving under deformation of the reference.
Real ExchangeMap built on conformation X and applied to an independent symbolic conformation Y."""
import numpy as np
import z3
from symx.core import twin_record as core_twin

ID = 'C03'
FUNCTIONS = ['gaddlemaps._exchage_map:ExchangeMap.__init__', 'gaddlemaps._exchage_map:ExchangeMap._calculate_refsystems_general',
             'gaddlemaps._exchage_map:ExchangeMap._make_map', 'gaddlemaps._exchage_map:ExchangeMap._proyect_point',
             'gaddlemaps._exchage_map:ExchangeMap._restore_point', 'gaddlemaps._exchage_map:ExchangeMap._restore_molecule',
             'gaddlemaps._exchage_map:ExchangeMap.__call__', 'gaddlemaps._auxilliary:calcule_base',
             'gaddlemaps.components._components_top:AtomTop.closest_atoms']
EXPLANATION = ('Real ExchangeMap constructed on symbolic conformation X (all coordinates, scale symbolic) and called on an '
               'independent symbolic conformation Y of the same molecule, real calcule_base inside (all frame branches are paths).  '
               'Per path and target atom: A |map(Y)_k - a_Y|^2 = s^2 |p_k - a_X|^2; C atoms sharing an anchor keep mutual distances '
               'times s; D a further call on Y\' that agrees with Y on (anchor, its two lowest-numbered bonded atoms) and is fresh '
               'elsewhere gives the same position, and the symbolic result depends on no other Y coordinate (variable-dependency '
               'set of the result term).  Frames are proved orthonormal on the path, then abstracted; the norm laws are universal '
               'lemmas proved once (three solver steps each) and instantiated.')
BOUNDS = {'quick': {'reference graphs': '3-chain, 4-chain, 4-star (two labellings) (locality needs >= 4 atoms)', 'target atoms': '1 and 2',
                    'conformations': 'X and Y fully symbolic and independent'},
          'thorough': {'reference graphs': 'all connected graphs on 4 atoms with an anchor, 5-chain, 5-star', 'target atoms': '1, 2'}}
OUTSIDE = ['references > 5 atoms', 'binary64 rounding (1e-12 only at replay)']
STUBS = ['scipy euclidean -> pure version', 'Molecule/MoleculeTop built directly']
ASSUMPTIONS = ['atoms of X at pairwise distinct positions; atoms of Y at pairwise distinct positions', '0 < s <= 2', 'exact real arithmetic']
CASE_TIMEOUT = {'quick': 1200, 'thorough': 3400}
MAX_REPLAYS = 8


def cases(tier):
    cs = []
    if tier == 'quick':
        graphs = {'chain3': (3, [(0, 1), (1, 2)]), 'chain4': (4, [(0, 1), (1, 2), (2, 3)]), 'star4': (4, [(0, 1), (0, 2), (0, 3)]),
                  'star4-centre3': (4, [(0, 3), (1, 3), (2, 3)])}
        for nm, (n, g) in graphs.items():
            for nt in (1, 2):
                if nt == 2 and nm in ('ring4', 'chain4'):
                    continue
                cs.append({'name': '%s/tgt%d' % (nm, nt), 'n': n, 'edges': g, 'nt': nt})
        # one anchor whose bonded atoms are 1, 2 and 8 in a 9-atom reference: the two frame neighbours are the two LOWEST
        # numbered bonded atoms whatever order a container of the bonds is iterated in
        cs.append({'name': 'star-1-2-8-of-9/tgt1', 'n': 9, 'edges': [(0, 1), (0, 2), (0, 8)], 'nt': 1})
    else:
        from props.C01 import _connected_graphs
        for gi, g in enumerate(_connected_graphs(4)):
            for nt in (1, 2):
                cs.append({'name': 'g4-%d/tgt%d' % (gi, nt), 'n': 4, 'edges': g, 'nt': nt})
        cs.append({'name': 'chain5/tgt1', 'n': 5, 'edges': [(i, i + 1) for i in range(4)], 'nt': 1})
        cs.append({'name': 'star5/tgt2', 'n': 5, 'edges': [(0, i) for i in range(1, 5)], 'nt': 2})
        cs.append({'name': 'star-1-2-8-of-9/tgt1', 'n': 9, 'edges': [(0, 1), (0, 2), (0, 8)], 'nt': 1})
        cs.append({'name': 'star-3-9-10-of-11/tgt1', 'n': 11, 'edges': [(0, 3), (0, 9), (0, 10)], 'nt': 1})
    return cs


def _merge(pa, pb):
    return [pa[i] + pb[i] for i in range(3)]


def run_case(case):
    from symx.core import explore, SymReal, expr, concretize_inputs, term_vars
    from symx import npx
    from symx.mol import make_molecule, simple_atoms
    from symx.frames import prove_frame, norm_lemmas, frame_of_passes
    npx.install()
    from gaddlemaps import ExchangeMap
    cap = 60000 if case['tier'] == 'quick' else 180000
    n, edges, nt = case['n'], [tuple(e) for e in case['edges']], case['nt']
    records, samples, nontrivial = [], [], []
    st = {'paths': 0, 'queries': 0, 'solver_s': 0.0, 'lem': None}
    xv = [[z3.Real('x%d_%d' % (i, k)) for k in range(3)] for i in range(n)]
    yv = [[z3.Real('y%d_%d' % (i, k)) for k in range(3)] for i in range(n)]
    zv = [[z3.Real('z%d_%d' % (i, k)) for k in range(3)] for i in range(n)]
    tv = [[z3.Real('t%d_%d' % (j, k)) for k in range(3)] for j in range(nt)]
    s = z3.Real('s')
    inputs = {}
    for nm, V in (('x', xv), ('y', yv), ('z', zv), ('t', tv)):
        for i, row in enumerate(V):
            for k in range(3):
                inputs['%s%d_%d' % (nm, i, k)] = row[k]
    inputs['s'] = s
    from symx.core import Ctx as _Ctx
    _Ctx.default_sample_inputs = inputs
    adj = {i: sorted(b if a == i else a for a, b in edges if i in (a, b)) for i in range(n)}
    big = n > 5

    def run(ctx):
        ctx.assume(z3.And(s > 0, s <= 2))
        rel = [i for i in range(n) if adj[i]] if big else list(range(n))
        for V in (xv, yv):
            for i in rel:
                for j in rel:
                    if j < i:
                        ctx.assume(z3.Or(*[V[i][k] != V[j][k] for k in range(3)]))
        anchors_ = [i for i in range(n) if len(adj[i]) >= 2]
        if len(anchors_) >= 3:
            from symx.frames import assume_no_distance_ties
            assume_no_distance_ties(ctx, tv, [xv[a_] for a_ in anchors_])
        mk = lambda V: make_molecule('REF', simple_atoms(n, 'C', 'REF'), edges, [[SymReal(v) for v in row] for row in V])
        refX, refY = mk(xv), mk(yv)
        tgt = make_molecule('TGT', simple_atoms(nt, 'A', 'TGT'), [(j, j + 1) for j in range(nt - 1)],
                            [[SymReal(v) for v in row] for row in tv])
        # a map for another molecule with the same atom names but a different bond graph is built first and used once:
        # any state shared between ExchangeMap instances (module-level caches keyed by atoms) would leak into the map under test
        from symx.mol import decoy_graph
        decoy_edges = decoy_graph(n, edges)
        if decoy_edges:
            dref = make_molecule('REF', simple_atoms(n, 'C', 'REF'), decoy_edges, [[float(i_ + 1), float(i_ * i_) / 3.0, float(i_ % 2)] for i_ in range(n)])
            dtgt = make_molecule('TGT', simple_atoms(nt, 'A', 'TGT'), [(j, j + 1) for j in range(nt - 1)], [[0.5 * j, 0.25, 0.125] for j in range(nt)])
            ExchangeMap(dref, dtgt, 0.5)(dref)
        m = ExchangeMap(refX, tgt, SymReal(s))
        framesX = dict(m._refsystems)
        outY = m(refY).atoms_positions
        framesY = dict(m._refsystems)
        eq = dict(m._equivalences)
        # locality: for the anchor of target atom 0, Y' agrees with Y on (anchor, n1, n2), fresh elsewhere
        a0 = eq[0]
        keep = {a0, adj[a0][0], adj[a0][1]}
        V2 = [yv[i] if i in keep else zv[i] for i in range(n)]
        for i in rel:
            for j in rel:
                if j < i:
                    ctx.assume(z3.Or(*[V2[i][k] != V2[j][k] for k in range(3)]))
        out2 = m(mk(V2)).atoms_positions
        return m, eq, framesX, framesY, outY, out2, keep

    def wit(ctx, extra, model, nm):
        return {'kind': 'deform', 'n': n, 'edges': edges, 'nt': nt, 'obligation': nm,
                'inputs': concretize_inputs(ctx, extra, inputs, model, grids=(1, 2, 4))}

    for ctx, res, exc in explore(run, max_paths=4000):
        st['paths'] += 1
        pidx = st['paths']
        if res is None:
            r, secs, m_ = ctx.reachable(cap)
            rec = {'name': 'path%d: finite frames for distinct positions' % pidx, 'status': r, 'secs': secs}
            if r == 'sat':
                rec['witness'] = wit(ctx, [], m_, 'finite')
            records.append(rec)
            st['queries'] += ctx.queries; st['solver_s'] += ctx.solver_time
            continue
        nontrivial.append('path%d' % pidx)
        m, eq, framesX, framesY, outY, out2, keep = res
        if pidx <= 2:
            records.append(core_twin(ctx, cap))
        if st['lem'] is None:
            st['lem'] = norm_lemmas(ctx, cap, records, 'path%d' % pidx) or False
        proved = {}
        if any(a not in framesX or a not in framesY for a in set(eq.values())):
            # the staged proof reads the frames the map holds after construction and after the call; an implementation that
            # does not have them at those points cannot be decided this way (C04 checks construction-time snapshots)
            records.append({'name': 'path%d: the map holds no frames for its anchors right after construction: staged distance proof not applicable' % pidx,
                            'status': 'unknown', 'secs': 0})
            st['queries'] += ctx.queries; st['solver_s'] += ctx.solver_time
            continue
        for a in sorted(set(eq.values())):
            okx, px, lx = prove_frame(ctx, framesX[a][0], cap, 'path%d anchor%d frame(X)' % (pidx, a), records, wit, abs_tag='X')
            oky, py, ly = prove_frame(ctx, framesY[a][0], cap, 'path%d anchor%d frame(Y)' % (pidx, a), records, wit, abs_tag='Y')
            cl = z3.And(*[expr(framesX[a][1][c]) == xv[a][c] for c in range(3)] + [expr(framesY[a][1][c]) == yv[a][c] for c in range(3)])
            r, secs, mo = ctx.prove(cl, cap)
            records.append({'name': 'path%d anchor%d: frame origins = anchor positions in X and Y' % (pidx, a), 'status': r, 'secs': secs,
                            'witness': wit(ctx, [z3.Not(cl)], mo, 'origin') if r == 'sat' else None})
            proved[a] = (okx and oky, px, py)
        def chain3(tag, lhs, midt, rhs, passes1, hyp1, passes2, hyp2, ok):
            """lhs == midt (stage 1, frame(Y) abstract, stored projections injected as fresh reals), midt == rhs (stage 2,
            frame(X) abstract), then lhs == rhs by transitivity (stage 3, the three quantities let-abstracted)."""
            out_status = []
            for nm, claim, passes, hyp in (('restore from frame(Y) preserves the norm of the stored projection', lhs == midt, passes1, hyp1),
                                           ('stored projection has norm s |p - a_X| (frame(X))', midt == rhs, passes2, hyp2)):
                if ok and st['lem']:
                    r, secs, mo = ctx.prove_abstracted(claim, passes, hyp, cap, drop_prefixes=('sqrt!',))
                else:
                    r, secs, mo = ctx.prove(claim, cap)
                rec = {'name': '%s: %s' % (tag, nm), 'status': r, 'secs': secs}
                if r == 'sat':
                    rec['witness'] = wit(ctx, [z3.Not(claim)], mo, nm)
                records.append(rec)
                out_status.append(r)
            if out_status == ['unsat', 'unsat']:
                N = [z3.Real('N!abs%d' % i) for i in range(3)]
                r, secs, mo = ctx.prove_abstracted(lhs == rhs, [[(lhs, N[0]), (midt, N[1]), (rhs, N[2])]], [N[0] == N[1], N[1] == N[2]], cap)
                records.append({'name': '%s: conclusion by transitivity' % tag, 'status': r, 'secs': secs})

        for k in range(nt):
            a = eq[k]
            ok, px, py = proved[a]
            FX, FY = (frame_of_passes(px), frame_of_passes(py)) if ok else (None, None)
            w = [tv[k][c] - xv[a][c] for c in range(3)]
            proj = [expr(m._target_coordinates[k][j]) for j in range(3)]
            pif = [z3.Real('pi%d!abs%d' % (k, j)) for j in range(3)]
            lhs = sum((expr(outY[k][c]) - yv[a][c]) ** 2 for c in range(3))
            midt = sum(x * x for x in proj)
            rhs = s * s * sum(x * x for x in w)
            if ok and st['lem']:
                p1 = [[(proj[j], pif[j]) for j in range(3)]] + py
                h1 = [st['lem'][0](FY, pif)]
                h2 = [st['lem'][1](FX, w, s)]
            else:
                p1 = h1 = h2 = None
            chain3('path%d tgt%d: |map(Y) - a_Y| = s |p - a_X| (anchor %d)' % (pidx, k, a), lhs, midt, rhs, p1, h1, px, h2, ok)
            for l in range(k):
                if eq[l] != a:
                    continue
                wkl = [tv[k][c] - tv[l][c] for c in range(3)]
                projl = [expr(m._target_coordinates[l][j]) for j in range(3)]
                pil = [z3.Real('pi%d!abs%d' % (l, j)) for j in range(3)]
                lhs = sum((expr(outY[k][c]) - expr(outY[l][c])) ** 2 for c in range(3))
                midt = sum((proj[j] - projl[j]) ** 2 for j in range(3))
                rhs = s * s * sum(x * x for x in wkl)
                if ok and st['lem']:
                    p1 = [[(proj[j], pif[j]) for j in range(3)] + [(projl[j], pil[j]) for j in range(3)]] + py
                    h1 = [st['lem'][0](FY, [pif[j] - pil[j] for j in range(3)])]
                    h2 = [st['lem'][1](FX, wkl, s)]
                chain3('path%d tgt%d,%d share anchor %d: mutual distance scaled by s' % (pidx, l, k, a), lhs, midt, rhs, p1, h1, px, h2, ok)
        # D locality (anchor of target 0)
        for k in range(nt):
            if eq[k] != eq[0]:
                continue
            claim = z3.And(*[expr(outY[k][c]) == expr(out2[k][c]) for c in range(3)])
            r, secs, mo = ctx.prove(claim, cap)
            rec = {'name': 'path%d tgt%d: unchanged when atoms other than %s move' % (pidx, k, sorted(keep)), 'status': r, 'secs': secs}
            if r == 'sat':
                rec['witness'] = wit(ctx, [z3.Not(claim)], mo, 'D')
            records.append(rec)
            dep = set()
            for c in range(3):
                dep |= {v for v in term_vars(expr(outY[k][c])) if v.startswith('y')}
            allowed = {'y%d_%d' % (i, c) for i in keep for c in range(3)}
            good = dep <= allowed
            records.append({'name': 'path%d tgt%d: result term depends on Y only through atoms %s (dependency set %s)' % (
                pidx, k, sorted(keep), sorted({d.split('_')[0] for d in dep})), 'status': 'unsat' if good else 'sat', 'secs': 0,
                'witness': None if good else {'kind': 'deform', 'n': n, 'edges': edges, 'nt': nt, 'obligation': 'D-dependency',
                                              'inputs': {kk: [(7 * i) % 23 - 11, 4] if kk != 's' else [1, 2] for i, kk in enumerate(sorted(inputs))}}})
        if len(samples) < 3:
            samples.append({'graph': edges, 'anchor_of_target': eq, 'kept_atoms': sorted(keep), 'path_condition': [str(p)[:90] for p in ctx.pc][:5]})
        st['queries'] += ctx.queries; st['solver_s'] += ctx.solver_time
    return {'records': records, 'paths': st['paths'], 'queries': st['queries'], 'solver_s': st['solver_s'],
            'samples': samples, 'nontrivial': nontrivial}


def replay(w):
    from symx.core import fval
    from symx.mol import make_molecule, simple_atoms
    from gaddlemaps import ExchangeMap
    v = {k: fval(x) for k, x in w['inputs'].items()}
    n, nt, edges = w['n'], w['nt'], [tuple(e) for e in w['edges']]
    X = np.array([[v['x%d_%d' % (i, k)] for k in range(3)] for i in range(n)])
    Y = np.array([[v['y%d_%d' % (i, k)] for k in range(3)] for i in range(n)])
    Z = np.array([[v['z%d_%d' % (i, k)] for k in range(3)] for i in range(n)])
    T = np.array([[v['t%d_%d' % (j, k)] for k in range(3)] for j in range(nt)])
    s = v['s']
    mk = lambda C: make_molecule('REF', simple_atoms(n, 'C', 'REF'), edges, C)
    tgt = make_molecule('TGT', simple_atoms(nt, 'A', 'TGT'), [(j, j + 1) for j in range(nt - 1)], T)
    adj = {i: sorted(b if a == i else a for a, b in edges if i in (a, b)) for i in range(n)}
    bad = []
    with np.errstate(all='ignore'):
        from symx.mol import decoy_graph
        decoy_edges = decoy_graph(n, edges)
        if decoy_edges:
            dref = make_molecule('REF', simple_atoms(n, 'C', 'REF'), decoy_edges, np.array([[float(i_ + 1), float(i_ * i_) / 3.0, float(i_ % 2)] for i_ in range(n)]))
            dtgt = make_molecule('TGT', simple_atoms(nt, 'A', 'TGT'), [(j, j + 1) for j in range(nt - 1)], np.array([[0.5 * j, 0.25, 0.125] for j in range(nt)]))
            ExchangeMap(dref, dtgt, 0.5)(dref)
        m = ExchangeMap(mk(X), tgt, s)
        eq = dict(m._equivalences)
        out = m(mk(Y)).atoms_positions
        for k in range(nt):
            a = eq[k]
            if not np.all(np.isfinite(out[k])):
                bad.append('non-finite'); continue
            if abs(np.linalg.norm(out[k] - Y[a]) - s * np.linalg.norm(T[k] - X[a])) > 1e-9:
                bad.append('atom %d: distance to its anchor %.9g != s*%.9g' % (k, np.linalg.norm(out[k] - Y[a]), np.linalg.norm(T[k] - X[a])))
            for l in range(k):
                if eq[l] == a and abs(np.linalg.norm(out[k] - out[l]) - s * np.linalg.norm(T[k] - T[l])) > 1e-9:
                    bad.append('atoms %d,%d sharing anchor %d: mutual distance not scaled by s' % (l, k, a))
            keep = {a, adj[a][0], adj[a][1]}
            Y2 = np.array([Y[i] if i in keep else Z[i] for i in range(n)])
            out2 = m(mk(Y2)).atoms_positions
            if np.abs(out2[k] - out[k]).max() > 1e-12:
                bad.append('atom %d moves when reference atoms outside %s are displaced' % (k, sorted(keep)))
    return {'reproduced': bool(bad), 'what': 'ExchangeMap on a deformed reference: ' + '; '.join(bad)[:300],
            'detail': {'X': X.tolist(), 'Y': Y.tolist(), 'T': T.tolist(), 's': s, 'edges': edges}}
