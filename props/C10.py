"""C10 - restraint pairs always designate the atoms the user (or the guesser) meant.
(1) AST->z3 kernel for the contiguous splitter (any length); (2) real guess_residue_restrains / guess_protein_restrains
with symbolic offsets; (3) real Alignment.align_molecules with the optimiser replaced by a recorder: role swap and
hydrogen re-indexing with symbolic restraint indices; (4) real Manager option routing with opaque values."""
import itertools
import z3

ID = 'C10'
FUNCTIONS = ['gaddlemaps._alignment:_split_list', 'gaddlemaps._alignment:guess_residue_restrains', 'gaddlemaps._alignment:guess_protein_restrains',
             'gaddlemaps._alignment:remove_hydrogens', 'gaddlemaps._alignment:Alignment.align_molecules',
             'gaddlemaps._manager:Manager.align_molecules', 'gaddlemaps._manager:Manager.parse_restrictions', 'gaddlemaps._manager:Manager._validate_index',
             'gaddlemaps._manager:Manager._parse_deformations', 'gaddlemaps._manager:Manager._parse_ignore_hydrogens']
EXPLANATION = ('(1) the slice bounds of _split_list are read from the current source and, for every number of parts 1..40 and every part '
               'index, proved for EVERY list length >= parts (unbounded integer): groups are consecutive, non-empty and cover the list.  '
               '(2) the real guessers run on residues of every length pair within the bound with symbolic integer offsets; partner coverage, '
               'index ranges, order and same-position pairing are SMT obligations on the returned index terms.  (3) the real '
               'Alignment.align_molecules runs with symbolic restraint indices (SymInt) for every size order and hydrogen mask within the '
               'bound; the recorder that replaces the optimiser checks, by the (pairwise distinct) coordinates of the atoms, that every pair it '
               'receives designates the user\'s atoms, dropped iff the fixed-side atom is a hydrogen, order kept.  (4) the real Manager '
               'routes per-species option dictionaries to recording alignments (opaque token values).')
BOUNDS = {'quick': {'splitter': 'parts 1..40, every length >= parts', 'residue lengths': '1..12 x 1..12', 'protein': '<= 3 residues of length <= 3',
                    'alignment': 'two-residue molecules of 2..4 atoms, all hydrogen masks, restraint lists of 0..2 symbolic pairs (the empty list included), three size orders',
                    'manager': 'all subsets of 3 species given options'},
          'thorough': {'residue lengths': '1..40 x 1..40', 'alignment': 'molecules up to 5 atoms with lists of 0..2 pairs; lists of 0..3 pairs for molecules up to 3 atoms'}}
OUTSIDE = ['random multi-residue molecules beyond 3 residues', 'the Monte-Carlo engine itself (stubbed: C06/C09)']
STUBS = ['gaddlemaps._alignment.minimize_molecules -> recorder returning the mobile coordinates', 'Manager built directly around recording Alignment objects']
ASSUMPTIONS = ['restraint indices within range (0 <= i < len(start), 0 <= j < len(end))', 'z3 Int div = Python // for positive divisors']
CASE_TIMEOUT = {'quick': 900, 'thorough': 3000}


def cases(tier):
    cs = [{'name': 'kernel/split-list'}]
    m = 12 if tier == 'quick' else 40
    for lo in range(1, m + 1, 6):
        cs.append({'name': 'residue-guess/l1=%d-%d' % (lo, min(m, lo + 5)), 'l1': list(range(lo, min(m, lo + 5) + 1)), 'l2max': m})
    cs.append({'name': 'protein-guess'})
    maxn = 4 if tier == 'quick' else 5
    for ns, ne in [(a, b) for a in range(2, maxn + 1) for b in range(2, maxn + 1) if abs(a - b) <= 2]:
        # (ns*ne)^pairs paths per hydrogen mask: three symbolic pairs only for molecules of up to 3 atoms
        cs.append({'name': 'alignment/start%d-end%d' % (ns, ne), 'ns': ns, 'ne': ne, 'npairs': 3 if (tier != 'quick' and max(ns, ne) <= 3) else 2})
    cs.append({'name': 'manager-routing'})
    return cs


def _kernel():
    from symx import astk
    import ast
    records, nontrivial = [], []
    try:
        fn, src = astk.get_function_ast('gaddlemaps._alignment:_split_list')
        comp = [n for n in ast.walk(fn) if isinstance(n, ast.ListComp)][0]
        sl = comp.elt.slice
        assert isinstance(comp.elt, ast.Subscript) and isinstance(sl, ast.Slice)
        itervar = comp.generators[0].target.id
        rng = ast.unparse(comp.generators[0].iter)
        if rng != 'range(wanted_parts)' or ast.unparse(comp.elt.value) != 'alist':
            raise astk.NoMatch('comprehension shape %s' % rng)
        lensrc = ast.unparse(astk.find_assign(fn, 'length'))
        if lensrc != 'len(alist)':
            raise astk.NoMatch('length = %s' % lensrc)
    except (astk.NoMatch, IndexError, AssertionError, AttributeError) as e:
        return {'records': [{'name': 'slice expression of _split_list not found (%r)' % (e,), 'status': 'unknown', 'secs': 0}],
                'paths': 0, 'queries': 0, 'solver_s': 0, 'samples': [], 'nontrivial': []}
    L = z3.Int('L')
    import time
    t0 = time.time()
    nq = 0
    from gaddlemaps._alignment import _split_list
    for P in range(1, 41):
        lo = [astk.to_z3(sl.lower, {'length': L, 'wanted_parts': z3.IntVal(P), itervar: z3.IntVal(i)}) for i in range(P)]
        hi = [astk.to_z3(sl.upper, {'length': L, 'wanted_parts': z3.IntVal(P), itervar: z3.IntVal(i)}) for i in range(P)]
        claims = [('first group starts at 0', lo[0] == 0), ('last group ends at length', hi[P - 1] == L)]
        claims += [('group %d ends where group %d starts' % (i, i + 1), hi[i] == lo[i + 1]) for i in range(P - 1)]
        claims += [('group %d non-empty' % i, lo[i] < hi[i]) for i in range(P)]
        claim = z3.And(*[c for _, c in claims])
        r, secs, m = astk.decide([L >= P], claim, 60000)
        nq += 1
        rec = {'name': 'parts=%d: for every length >= %d the %d groups are consecutive, non-empty and cover the list' % (P, P, P), 'status': r, 'secs': secs}
        if r == 'sat':
            rec['witness'] = {'kind': 'split', 'parts': P, 'length': m.eval(L, model_completion=True).as_long()}
        records.append(rec)
        nontrivial.append('P%d' % P)
        # translator validation on concrete lengths
        for Lc in (P, P + 1, 2 * P + 3, 97):
            real = _split_list(list(range(Lc)), P)
            s = z3.Solver(); s.add(L == Lc); s.check(); mm = s.model()
            model = [(mm.eval(a, model_completion=True).as_long(), mm.eval(b, model_completion=True).as_long()) for a, b in zip(lo, hi)]
            if [(g[0] if g else None, (g[-1] + 1) if g else None) for g in real] != [(a if a < b else None, b if a < b else None) for a, b in model]:
                records.append({'name': 'translator validation parts=%d length=%d' % (P, Lc), 'status': 'error', 'secs': 0, 'detail': '%s vs %s' % (real, model)})
    records.append({'name': 'translator validation: real _split_list vs z3 bounds on 160 concrete (parts, length) pairs', 'status': 'validated', 'secs': 0})
    records.append({'name': 'reachability-twin', 'status': 'twin', 'secs': 0})
    return {'records': records, 'paths': 0, 'queries': nq, 'solver_s': round(time.time() - t0, 2),
            'samples': [{'lower': ast.unparse(sl.lower), 'upper': ast.unparse(sl.upper)}], 'nontrivial': nontrivial}


class _FakeRes:
    def __init__(self, n):
        self.n = n

    def __len__(self):
        return self.n


def _residue_guess(case):
    from symx.core import SymInt, Ctx
    from symx import astk
    from gaddlemaps._alignment import guess_residue_restrains
    records, nontrivial, samples = [], [], []
    o1, o2 = z3.Int('offset1'), z3.Int('offset2')
    ctx = Ctx(); Ctx.cur = ctx
    nq = 0
    for l1 in case['l1']:
        for l2 in range(1, case['l2max'] + 1):
            pairs = guess_residue_restrains(_FakeRes(l1), _FakeRes(l2), SymInt(o1), SymInt(o2))
            I = [p[0].e if isinstance(p[0], SymInt) else z3.IntVal(p[0]) for p in pairs]
            J = [p[1].e if isinstance(p[1], SymInt) else z3.IntVal(p[1]) for p in pairs]
            claims = [z3.And(*[z3.And(i - o1 >= 0, i - o1 < l1, j - o2 >= 0, j - o2 < l2) for i, j in zip(I, J)])]
            claims.append(z3.And(*[z3.Or(*[i == o1 + a for i in I]) for a in range(l1)]))         # every atom of residue 1 has a partner
            claims.append(z3.And(*[z3.Or(*[j == o2 + b for j in J]) for b in range(l2)]))         # every atom of residue 2 has a partner
            claims.append(z3.And(*[z3.Or(I[q] < I[q + 1], z3.And(I[q] == I[q + 1], J[q] < J[q + 1])) for q in range(len(pairs) - 1)]) if len(pairs) > 1 else z3.BoolVal(True))
            # monotone pairing (contiguous groups matched in order): a later atom of residue 1 is never paired with an earlier atom of residue 2 than all partners of an earlier atom
            claims.append(z3.And(*[z3.Implies(I[p] < I[q], J[p] <= J[q]) if True else z3.BoolVal(True)
                                   for p in range(len(pairs)) for q in range(len(pairs)) if p < q and (q - p) <= max(l1, l2)]))
            r, secs, m = astk.decide([], z3.And(*claims), 60000)
            nq += 1
            rec = {'name': 'lengths %dx%d, symbolic offsets: ranges, full partner coverage, order, monotone pairing' % (l1, l2), 'status': r, 'secs': secs}
            if r == 'sat':
                rec['witness'] = {'kind': 'residue-guess', 'l1': l1, 'l2': l2, 'o1': m.eval(o1, model_completion=True).as_long(), 'o2': m.eval(o2, model_completion=True).as_long()}
            records.append(rec)
            nontrivial.append('%dx%d' % (l1, l2))
    samples.append({'lengths': '%dx%d' % (case['l1'][0], 3), 'pairs(offset-free)': str(guess_residue_restrains(_FakeRes(case['l1'][0]), _FakeRes(3)))})
    records.append({'name': 'reachability-twin', 'status': 'twin', 'secs': 0})
    return {'records': records, 'paths': len(nontrivial), 'queries': nq, 'solver_s': 0, 'samples': samples, 'nontrivial': nontrivial}


def _protein_guess():
    from symx.mol import make_molecule
    from gaddlemaps._alignment import guess_protein_restrains
    records, nontrivial = [], []
    combos = [c for k in (1, 2, 3) for c in itertools.product((1, 2, 3), repeat=k)]

    def mol(name, lens, prefix):
        atoms, edges, i = [], [], 0
        for ri, l in enumerate(lens):
            for a in range(l):
                atoms.append(('%s%d' % (prefix, i), 'R%d' % ri, ri + 1))
                if i:
                    edges.append((i - 1, i))
                i += 1
        return make_molecule(name, atoms, edges, [[0.1 * q, 0.0, 0.0] for q in range(len(atoms))])
    for la in combos:
        for lb in combos:
            tag = 'residue lengths %s vs %s' % (la, lb)
            m1, m2 = mol('PROT', la, 'C'), mol('PROT', lb, 'A')
            try:
                pairs = guess_protein_restrains(m1, m2)
                err = None
            except IOError as e:
                pairs, err = None, e
            if len(la) != len(lb):
                ok = err is not None
                what = 'unequal residue counts refused with IOError'
            else:
                off1 = [sum(la[:k]) for k in range(len(la) + 1)]
                off2 = [sum(lb[:k]) for k in range(len(lb) + 1)]
                pos1 = lambda i: max(k for k in range(len(la)) if off1[k] <= i)
                pos2 = lambda j: max(k for k in range(len(lb)) if off2[k] <= j)
                ok = (err is None and all(0 <= i < sum(la) and 0 <= j < sum(lb) and pos1(i) == pos2(j) for i, j in pairs)
                      and {i for i, j in pairs} == set(range(sum(la))) and {j for i, j in pairs} == set(range(sum(lb)))
                      and pairs == sorted(pairs))
                what = 'pairs stay inside same-position residues, cover every atom, keep order, in range'
            rec = {'name': '%s: %s' % (tag, what), 'status': 'unsat' if ok else 'sat', 'secs': 0}
            if not ok:
                rec['witness'] = {'kind': 'protein-guess', 'la': list(la), 'lb': list(lb)}
            records.append(rec)
            nontrivial.append(tag)
    return {'records': records, 'paths': len(nontrivial), 'queries': 0, 'solver_s': 0, 'samples': [{'combos': len(combos) ** 2}], 'nontrivial': nontrivial}


def _alignment(case):
    """real Alignment.align_molecules; restraint indices symbolic; optimiser replaced by a recorder"""
    import numpy as np
    from symx.core import explore, SymInt, SymReal, Ctx
    from symx import npx
    from symx.mol import make_molecule
    npx.install()
    import gaddlemaps._alignment as al
    ns, ne, npairs = case['ns'], case['ne'], case['npairs']
    records, nontrivial, samples = [], [], []
    st = {'paths': 0}
    calls = []

    def recorder(mol1_positions, mol2_positions, mol2_com, sigma_scale, n_steps, restriction, mol2_bonds_info, displacement_module, sim_type):
        calls.append({'mol1': mol1_positions, 'mol2': mol2_positions, 'restr': list(restriction), 'sim_type': sim_type, 'n_steps': n_steps})
        return mol2_positions
    al.minimize_molecules = recorder
    fixed_is_start = ns >= ne
    nfixed = ns if fixed_is_start else ne
    for mask in itertools.product((False, True), repeat=nfixed):
        if all(mask):
            continue          # the larger molecule has at least one non-hydrogen atom (precondition of the statement)
        for ign in (True, False):
            iv = [z3.Int('i%d' % q) for q in range(npairs)]
            jv = [z3.Int('j%d' % q) for q in range(npairs)]

            def run(ctx, L):
                del calls[:]
                def mk(name, n, prefix, hmask, nres=2):
                    # multi-residue molecules: explicit restraints (also an explicit empty list) must switch the automatic guess off
                    atoms = [(('H%d' % a) if (hmask and hmask[a]) else ('%s%d' % (prefix, a)), name[:3], 1 if (nres == 1 or a < (n + 1) // 2) else 2) for a in range(n)]
                    # concrete, pairwise distinct coordinates (the routing of indices does not depend on geometry; symbolic
                    # coordinates would only add bond-length comparison forks inside align_molecules)
                    base = 0.0 if prefix == 'C' else 50.0
                    coords = [[base + 1.0 * a + 0.013 * k * (a + 1), base + 0.37 * a * a + 0.1 * k, 0.11 * a + 0.7 * k] for k in [0] for a in [a_] ] if False else \
                             [[base + 1.0 * a_, 0.37 * a_ * a_ + 0.1, 0.11 * a_ + 0.05 * (a_ % 2)] for a_ in range(n)]
                    return make_molecule(name, atoms, [(a, a + 1) for a in range(n - 1)], coords)
                start = mk('STA', ns, 'C', mask if fixed_is_start else None)
                end = mk('END', ne, 'N', None if fixed_is_start else mask, nres=2 if (ns + ne) % 2 == 0 else 1)
                R = []
                for q in range(L):
                    ctx.assume(z3.And(iv[q] >= 0, iv[q] < ns, jv[q] >= 0, jv[q] < ne))
                    R.append((SymInt(iv[q], 0, ns - 1), SymInt(jv[q], 0, ne - 1)))
                ali = al.Alignment(start, end)
                try:
                    ali.align_molecules(restrictions=R, deformation_types=(0, 1), ignore_hydrogens=ign)
                except Exception as e:            # the real code refusing valid restraints is a finding, not a harness error
                    return [(R[q][0].concretize(), R[q][1].concretize()) for q in range(L)], '%s: %s' % (type(e).__name__, str(e)[:120]), None, None
                user = []
                for q in range(L):
                    user.append((R[q][0].concretize(), R[q][1].concretize()))
                fixed, mobile = (ali.start, ali.end) if fixed_is_start else (ali.end, ali.start)
                return user, list(calls), fixed, mobile
            for L in range(0, npairs + 1):
                bad = None
                npth = 0
                for ctx, res, exc in explore(lambda ctx: run(ctx, L), max_paths=5000):
                    npth += 1
                    st['paths'] += 1
                    if res is None:
                        bad = bad or 'abort %r' % (exc,)
                        continue
                    user, cl, fixed, mobile = res
                    if isinstance(cl, str):
                        bad = bad or 'restraints %s: align_molecules raised %s' % (user, cl)
                        continue
                    if len(cl) != 1:
                        bad = bad or 'optimiser called %d times' % len(cl)
                        continue
                    c = cl[0]
                    fpos = [a.position for a in fixed]
                    hyd = [a.element == 'H' for a in fixed]
                    want = []
                    for (i, j) in user:
                        fi, mj = (i, j) if fixed_is_start else (j, i)
                        if ign and hyd[fi]:
                            continue
                        want.append((fi, mj))
                    got = c['restr']
                    if len(got) != len(want):
                        bad = bad or 'restraints %s -> %d pairs at the optimiser, expected %d' % (user, len(got), len(want))
                        continue
                    for (gf, gm), (wf, wm) in zip(got, want):
                        gf = gf.concretize() if isinstance(gf, SymInt) else int(gf)
                        gm = gm.concretize() if isinstance(gm, SymInt) else int(gm)
                        # the fixed-side index must designate, in the array handed to the optimiser, the user's atom (object identity of its coordinates)
                        if not (0 <= gf < len(c['mol1']) and all(float(c['mol1'][gf][q_]) == float(fpos[wf][q_]) for q_ in range(3))) or gm != wm:
                            bad = bad or 'restraints %s: optimiser pair (%s,%s) does not designate atoms (fixed %d, mobile %d)' % (user, gf, gm, wf, wm)
                    if len(c['mol2']) != len(mobile):
                        bad = bad or 'mobile coordinates incomplete'
                tag = 'start %d / end %d atoms, hydrogens %s on the fixed molecule, ignore_hydrogens=%s, %d symbolic pair(s)' % (
                    ns, ne, ''.join('H' if h else '-' for h in mask), ign, L)
                rec = {'name': '%s: every pair reaches the optimiser designating the user\'s atoms (%d paths)' % (tag, npth),
                       'status': 'unsat' if bad is None else 'sat', 'secs': 0}
                if bad is not None:
                    rec['witness'] = {'kind': 'alignment', 'ns': ns, 'ne': ne, 'mask': list(mask), 'ign': ign, 'npairs': L, 'what': bad}
                records.append(rec)
                nontrivial.append(tag)
    samples.append({'size_order': 'start >= end' if fixed_is_start else 'start < end (roles swapped)'})
    records.append({'name': 'reachability-twin', 'status': 'twin', 'secs': 0})
    return {'records': records, 'paths': st['paths'], 'queries': 0, 'solver_s': 0, 'samples': samples, 'nontrivial': nontrivial}


def _manager():
    from symx.mol import make_molecule
    from gaddlemaps import Manager, Alignment
    records, nontrivial = [], []
    started = []

    class RecAlign(Alignment):
        def align_molecules(self, restrictions=None, deformation_types=None, ignore_hydrogens=True, auto_guess_protein_restrictions=True):
            started.append((self.start.name, restrictions, deformation_types, ignore_hydrogens))

    def mol(name, n):
        return make_molecule(name, [('C%d' % a, name[:3], 1) for a in range(n)], [(a, a + 1) for a in range(n - 1)], [[0.1 * a, 0, 0] for a in range(n)])
    species = {'AAA': 3, 'BBB': 2, 'CCC': 4}

    def manager(with_end=('AAA', 'BBB', 'CCC')):
        m = Manager.__new__(Manager)
        m.system = None
        m.molecule_correspondence = {k: RecAlign(start=mol(k, n)) for k, n in species.items()}
        for k in with_end:
            m.molecule_correspondence[k].end = mol(k, species[k] + 2)
        return m
    names = list(species)
    for sub_r in itertools.chain.from_iterable(itertools.combinations(names, k) for k in range(4)):
        for sub_d in itertools.chain.from_iterable(itertools.combinations(names, k) for k in range(4)):
            for sub_h in ((), ('AAA',), ('BBB', 'CCC'), tuple(names)):
                R = {k: [(0, 1), (1, 0)] if k != 'BBB' else [(1, 1)] for k in sub_r}
                D = {k: (0, 1) if k == 'AAA' else (2,) for k in sub_d}
                H = {k: (k == 'BBB') for k in sub_h}
                del started[:]
                m = manager()
                m.align_molecules(restrictions=R or None, deformation_types=D or None, ignore_hydrogens=H or None)
                got = {s[0]: s[1:] for s in started}
                ok = set(got) == set(names) and len(started) == 3
                for k in names:
                    wr = R.get(k) if R.get(k) else None
                    wd = D.get(k) if D.get(k) else None
                    wh = H.get(k, True)
                    ok = ok and k in got and got[k] == (wr, wd, wh)
                tag = 'options for restraints=%s deformations=%s hydrogens=%s' % (sub_r, sub_d, sub_h)
                rec = {'name': tag + ': each species\' alignment receives exactly its own values', 'status': 'unsat' if ok else 'sat', 'secs': 0}
                if not ok:
                    rec['witness'] = {'kind': 'manager', 'R': list(sub_r), 'D': list(sub_d), 'H': list(sub_h)}
                records.append(rec)
                nontrivial.append(tag)
    # restraints already parsed by the caller (parse_restrictions=False): dictionaries in any species order, possibly partial
    for order in itertools.permutations(names):
        for keep in (3, 2):
            R = {k: ([(0, 1)] if k != 'BBB' else [(1, 1)]) for k in order[:keep]}
            D = {'AAA': (0, 1), 'BBB': (2,), 'CCC': (0,)}
            H = {'AAA': False, 'BBB': True, 'CCC': False}
            del started[:]
            m = manager()
            m.align_molecules(restrictions=R, deformation_types=D, ignore_hydrogens=H, parse_restrictions=False)
            got = {s[0]: s[1:] for s in started}
            ok = set(got) == set(R) and all(got[k] == (R[k], D[k], H[k]) for k in R)
            tag = 'parse_restrictions=False, restraint dictionary in species order %s' % (list(R),)
            rec = {'name': tag + ': each species\' alignment receives exactly its own values', 'status': 'unsat' if ok else 'sat', 'secs': 0}
            if not ok:
                rec['witness'] = {'kind': 'manager', 'R': list(R), 'D': list(D), 'H': list(H)}
            records.append(rec)
            nontrivial.append(tag)
    # rejected inputs: nothing may be started
    bads = [('unknown species in restraints', dict(restrictions={'ZZZ': [(0, 0)]}), KeyError),
            ('unknown species in deformations', dict(deformation_types={'ZZZ': (0,)}), KeyError),
            ('unknown species in hydrogens', dict(ignore_hydrogens={'ZZZ': True}), KeyError),
            ('restraint index out of range (start)', dict(restrictions={'AAA': [(7, 0)]}), ValueError),
            ('restraint index out of range (end)', dict(restrictions={'AAA': [(0, 9)]}), ValueError),
            ('restraint tuple of wrong length', dict(restrictions={'AAA': [(0, 1, 2)]}), ValueError),
            ('deformation tuple too long', dict(deformation_types={'AAA': (0, 1, 2, 0)}), ValueError),
            ('deformation not a sequence', dict(deformation_types={'AAA': 1}), ValueError),
            ('hydrogen flag not a bool', dict(ignore_hydrogens={'BBB': 'yes'}), ValueError),
            ('species without end molecule', dict(restrictions={'CCC': [(0, 0)]}), KeyError)]
    for tag, kw, exc in bads:
        del started[:]
        m = manager(with_end=('AAA', 'BBB') if 'without end' in tag else ('AAA', 'BBB', 'CCC'))
        try:
            m.align_molecules(**kw)
            ok = False; what = 'accepted'
        except exc:
            ok = not started; what = 'raised %s, %d alignments started before' % (exc.__name__, len(started))
        except Exception as e:
            ok = False; what = 'raised %s' % type(e).__name__
        rec = {'name': '%s is rejected with %s before any alignment runs (%s)' % (tag, exc.__name__, what), 'status': 'unsat' if ok else 'sat', 'secs': 0}
        if not ok:
            rec['witness'] = {'kind': 'manager-reject', 'tag': tag}
        records.append(rec)
        nontrivial.append(tag)
    return {'records': records, 'paths': len(nontrivial), 'queries': 0, 'solver_s': 0, 'samples': [{'species': species}], 'nontrivial': nontrivial}


def run_case(case):
    nm = case['name']
    if nm.startswith('kernel'):
        return _kernel()
    if nm.startswith('residue-guess'):
        return _residue_guess(case)
    if nm == 'protein-guess':
        return _protein_guess()
    if nm.startswith('alignment'):
        return _alignment(case)
    return _manager()


def replay(w):
    k = w['kind']
    if k == 'split':
        from gaddlemaps._alignment import _split_list
        g = _split_list(list(range(w['length'])), w['parts'])
        flat = [x for grp in g for x in grp]
        bad = flat != list(range(w['length'])) or any(not grp for grp in g)
        return {'reproduced': bool(bad), 'what': '_split_list(length %d, %d parts) groups are not a consecutive non-empty cover' % (w['length'], w['parts']), 'detail': {'groups': g}}
    if k == 'residue-guess':
        from gaddlemaps import guess_residue_restrains
        p = guess_residue_restrains(_FakeRes(w['l1']), _FakeRes(w['l2']), w['o1'], w['o2'])
        I = {i - w['o1'] for i, j in p}; J = {j - w['o2'] for i, j in p}
        bad = I != set(range(w['l1'])) or J != set(range(w['l2'])) or p != sorted(p) or any(pp[0] < qq[0] and pp[1] > qq[1] for pp in p for qq in p)
        return {'reproduced': bool(bad), 'what': 'guess_residue_restrains(%d, %d atoms): coverage/order/range broken' % (w['l1'], w['l2']), 'detail': {'pairs': p}}
    if k in ('protein-guess', 'alignment', 'manager', 'manager-reject'):
        # these obligations are decided by concrete comparison inside the harness run: re-run the same case in this fresh process
        case = {'protein-guess': {'name': 'protein-guess'}, 'manager': {'name': 'manager-routing'}, 'manager-reject': {'name': 'manager-routing'},
                'alignment': {'name': 'alignment/x', 'ns': w.get('ns'), 'ne': w.get('ne'), 'npairs': w.get('npairs', 1)}}[k]
        case.update(tier='quick', seed=0)
        out = run_case(case)
        bad = [r['name'] for r in out['records'] if r['status'] == 'sat']
        return {'reproduced': bool(bad), 'what': '%s: %s' % (k, '; '.join(bad)[:300]), 'detail': {}}
    return {'reproduced': False, 'what': 'unknown witness kind', 'detail': {}}
