"""C08 - the overlap measure (chi2) equals its reference definition for all restraint sets.
Real gaddlemaps._backend.Chi2Calculator (constructor + the three call paths) on symbolic coordinates."""
import itertools
import random
import fractions
import numpy as np
import z3
from symx.core import twin_record as core_twin

ID = 'C08'
FUNCTIONS = ['gaddlemaps._backend:Chi2Calculator.__init__', 'gaddlemaps._backend:Chi2Calculator.__call__',
             'gaddlemaps._backend:Chi2Calculator._chi2_molecules_restrains_contrib',
             'gaddlemaps._backend:Chi2Calculator._chi2_molecules_only_restrains',
             'gaddlemaps._backend:Chi2Calculator._chi2_molecules_with_restrains',
             'gaddlemaps._backend:Chi2Calculator.chi2_molecules']
EXPLANATION = ('The real Chi2Calculator is constructed on symbolic fixed/mobile coordinates and called on *different* symbolic '
               'mobile coordinates, for every restraint list within the bound.  scipy cdist is replaced either by the exact '
               'squared distances (mode exact) or by a matrix of free non-negative reals (mode order: order-only abstraction, '
               'a superset of all geometries, so unsat is sound).  Each path of the real code fixes which mobile atom is nearest '
               'to which fixed atom; on each path "value == reference formula" (z3 If/min oracle built independently by the '
               'harness, 1.1^k as the exact binary64 value of 1.1**k) and "value >= 0" are SMT obligations.  A sat answer in '
               'order mode is re-run along the same decisions with exact geometry to obtain realisable coordinates before replay.')
BOUNDS = {'quick': {'sizes (fixed x mobile)': '1x1, 2x1, 1x2, 2x2 (all restraint lists <=3 pairs), 3x2, 2x3, 3x3 (all lists <=2 pairs), 4x3 (6 selected lists)',
                    'mode': 'order abstraction; 2x2 all lists <=3 and 3x2 lists <=1 also with exact geometry'},
          'thorough': {'sizes': 'as quick plus 3x3 all 3-pair lists, 4x3 / 3x4 / 5x2 / 2x5 all lists <=2 pairs, 4x4 (4 selected lists with at least one restrained fixed atom)',
                       'mode': 'order abstraction; additionally 3x3 lists <=1 with exact geometry'}}
OUTSIDE = ['molecules beyond 4x4 / 5x2 atoms and restraint lists longer than 3 pairs', 'exact ties between two distances in one row (first-minimum tie-break is not part of the statement)',
           'rigid-motion and relabelling invariance are consequences of the reference formula (not separately decided)', 'binary64 rounding']
STUBS = ['scipy.spatial.distance.cdist(...,"sqeuclidean") -> exact squared distances on object arrays, or free non-negative reals (order abstraction)']
ASSUMPTIONS = ['no two entries of one row of the distance matrix are exactly equal', 'exact real arithmetic']
CASE_TIMEOUT = {'quick': 900, 'thorough': 3000}
FRESH_PROCESS = False


def _lists(n1, n2, maxlen):
    pairs = list(itertools.product(range(n1), range(n2)))
    for L in range(maxlen + 1):
        for combo in itertools.product(pairs, repeat=L):
            yield list(combo)


def _chunks(seq, k):
    seq = list(seq)
    for i in range(0, len(seq), k):
        yield seq[i:i + k]


def cases(tier):
    cs = []

    def add(n1, n2, lists, mode, tag, chunk=16):
        for ci, ch in enumerate(_chunks(lists, chunk)):
            cs.append({'name': '%s/%dx%d/%s/%d' % (mode, n1, n2, tag, ci), 'n1': n1, 'n2': n2, 'lists': ch, 'mode': mode})
    for (a, b) in ((1, 1), (2, 1), (1, 2), (2, 2)):
        add(a, b, _lists(a, b, 3), 'order', 'lists<=3', 12)
    add(3, 2, _lists(3, 2, 2), 'order', 'lists<=2', 6)
    add(2, 3, _lists(2, 3, 2), 'order', 'lists<=2', 6)
    add(3, 3, _lists(3, 3, 2), 'order', 'lists<=2', 3)
    sel43 = [[], [(0, 0)], [(3, 2)], [(0, 0), (1, 1), (2, 2), (3, 0)], [(0, 1), (0, 2)], [(1, 2), (1, 2), (3, 0)]]
    add(4, 3, sel43, 'order', 'selected', 1)
    for (a, b) in ((2, 2), (3, 2), (2, 3)):
        add(a, b, _lists(a, b, 2), 'order2', 'two-calls/lists<=2', 4)
    add(2, 2, _lists(2, 2, 3), 'exact', 'lists<=3', 12)
    add(3, 2, _lists(3, 2, 1), 'exact', 'lists<=1', 1)
    if tier == 'thorough':
        add(3, 3, [l for l in _lists(3, 3, 3) if len(l) == 3], 'order', 'lists=3', 12)
        add(4, 3, [l for l in _lists(4, 3, 2) if l not in sel43], 'order', 'lists<=2', 4)
        add(3, 4, _lists(3, 4, 2), 'order', 'lists<=2', 4)
        add(5, 2, _lists(5, 2, 2), 'order', 'lists<=2', 4)
        add(2, 5, _lists(2, 5, 2), 'order', 'lists<=2', 6)
        add(4, 4, [[(0, 0)], [(3, 3), (1, 3)], [(0, 0), (1, 1), (2, 2), (3, 3)], [(2, 1)]], 'order', 'selected', 1)
        add(3, 3, _lists(3, 3, 1), 'exact', 'lists<=1', 1)
    return cs


def _pow11(k):
    from symx.core import realval
    return realval(1.1 ** k)


def _oracle(F, M, R, D, n1, n2):
    """Reference definition as z3 terms.  F, M: lists of 3 z3 terms; D[i][j] squared distance terms."""
    restr = z3.RealVal(0)
    for (i, j) in R:
        restr = restr + sum((F[i][k] - M[j][k]) ** 2 for k in range(3))
    fixed_restrained = {i for i, j in R}
    mobile_restrained = {j for i, j in R}
    nn = z3.RealVal(0)
    nearest = {}
    for i in range(n1):
        if i in fixed_restrained:
            continue
        m = D[i][0]
        for j in range(1, n2):
            m = z3.If(D[i][j] < m, D[i][j], m)
        nn = nn + m
        # first index attaining the minimum
        nearest[i] = [z3.And(*([D[i][j] <= D[i][k] for k in range(n2) if k != j] + [D[i][j] < D[i][k] for k in range(j)]))
                      for j in range(n2)]
    used = []
    for j in range(n2):
        if j in mobile_restrained:
            used.append(z3.BoolVal(True))
        else:
            used.append(z3.Or(*[nearest[i][j] for i in nearest]) if nearest else z3.BoolVal(False))
    k = sum((z3.If(u, 0, 1) for u in used), z3.IntVal(0))
    fac = _pow11(n2)
    for kk in range(n2 - 1, -1, -1):
        fac = z3.If(k == kk, _pow11(kk), fac)
    return (restr + nn) * fac


def run_case(case):
    from symx.core import explore, SymReal, expr, concretize_inputs, Ctx, eval_terms
    from symx import npx
    import gaddlemaps._backend as be
    cap = 60000 if case['tier'] == 'quick' else 180000
    n1, n2, mode = case['n1'], case['n2'], case['mode']
    records, samples, nontrivial = [], [], []
    st = {'paths': 0, 'queries': 0, 'solver_s': 0.0}
    npx.install(modules=['gaddlemaps._backend'])
    Fv = [[z3.Real('f%d_%d' % (i, k)) for k in range(3)] for i in range(n1)]
    Av = [[z3.Real('a%d_%d' % (j, k)) for k in range(3)] for j in range(n2)]   # construction-time mobile coordinates
    Mv = [[z3.Real('m%d_%d' % (j, k)) for k in range(3)] for j in range(n2)]   # call-time mobile coordinates
    Dv = [[z3.Real('D%d_%d' % (i, j)) for j in range(n2)] for i in range(n1)]
    M2v = [[z3.Real('q%d_%d' % (j, k)) for k in range(3)] for j in range(n2)]   # coordinates of a second call on the same calculator
    D2v = [[z3.Real('E%d_%d' % (i, j)) for j in range(n2)] for i in range(n1)]
    coord_inputs = {}
    for nm, V in (('f', Fv), ('a', Av), ('m', Mv), ('q', M2v)):
        for i, row in enumerate(V):
            for k in range(3):
                coord_inputs['%s%d_%d' % (nm, i, k)] = row[k]
    exactD = [[sum((Fv[i][k] - Mv[j][k]) ** 2 for k in range(3)) for j in range(n2)] for i in range(n1)]
    exactD2 = [[sum((Fv[i][k] - M2v[j][k]) ** 2 for k in range(3)) for j in range(n2)] for i in range(n1)]

    def make_run(R, use_mode):
        def run(ctx):
            F = np.array([[SymReal(v) for v in row] for row in Fv], dtype=object)
            A = np.array([[SymReal(v) for v in row] for row in Av], dtype=object)
            M = np.array([[SymReal(v) for v in row] for row in Mv], dtype=object)
            M2 = np.array([[SymReal(v) for v in row] for row in M2v], dtype=object)
            ids = {id(F[i, 0]): i for i in range(n1)}
            two = use_mode in ('order2', 'exact2')
            Ds = {id(M[0, 0]): (Dv if use_mode.startswith('order') else exactD), id(M2[0, 0]): (D2v if use_mode.startswith('order') else exactD2)}

            def cdist_stub(X, Y, metric):
                assert metric == 'sqeuclidean'
                assert id(Y[0, 0]) in Ds, 'cdist called on something else than the call-time coordinates'
                D = Ds[id(Y[0, 0])]
                out = np.empty((len(X), n2), dtype=object)
                for r in range(len(X)):
                    i = ids[id(X[r, 0])]
                    for j in range(n2):
                        out[r, j] = SymReal(D[i][j])
                return out
            be.cdist = cdist_stub
            for D in ([Ds[id(M[0, 0])], Ds[id(M2[0, 0])]] if two else [Ds[id(M[0, 0])]]):
                for i in range(n1):
                    for j in range(n2):
                        if use_mode.startswith('order'):
                            ctx.assume(D[i][j] >= 0)
                        for k in range(j):
                            ctx.assume(D[i][j] != D[i][k])
            calc = be.Chi2Calculator(F, A, list(R) if R else None)
            val = calc(M)
            if two:
                return val, calc(M2)
            return val
        return run

    rng = random.Random(case['seed'])
    for R in case['lists']:
        R = [tuple(p) for p in R]
        tag = 'R=%s' % (R,)
        inputs = dict(coord_inputs)
        if mode.startswith('order'):
            inputs.update({'D%d_%d' % (i, j): Dv[i][j] for i in range(n1) for j in range(n2)})
        D = Dv if mode.startswith('order') else exactD
        orc = _oracle(Fv, Mv, R, D, n1, n2)
        if mode == 'order2':
            inputs.update({'E%d_%d' % (i, j): D2v[i][j] for i in range(n1) for j in range(n2)})
            orc2nd = _oracle(Fv, M2v, R, D2v, n1, n2)
        np_here = 0
        for ctx, res, exc in explore(make_run(R, mode), max_paths=3000):
            st['paths'] += 1
            if res is None:
                records.append({'name': '%s: unexpected abort %r' % (tag, exc), 'status': 'error', 'secs': 0, 'detail': repr(exc)})
                continue
            np_here += 1
            nontrivial.append('%s/p%d' % (tag, np_here))
            if np_here == 1:
                records.append(core_twin(ctx, cap))
            second = None
            if mode == 'order2':
                res, second = res
            val = expr(res)
            claim = val == orc
            if mode == 'exact':
                # let-abstraction: each squared-distance polynomial becomes one fresh real (falls back to the full query)
                r, secs, m = ctx.prove_abstracted(claim, [[(exactD[i][j], Dv[i][j]) for i in range(n1) for j in range(n2)]], [], cap)
            else:
                r, secs, m = ctx.prove(claim, cap)
            rec = {'name': '%s path%d: value == reference definition' % (tag, np_here), 'status': r, 'secs': secs}
            if r == 'sat':
                wit = None
                if mode in ('order', 'order2'):
                    # realise: same decisions, exact geometry
                    ctx2 = Ctx(list(ctx.decisions)); Ctx.cur = ctx2
                    try:
                        res2 = make_run(R, 'exact' if mode == 'order' else 'exact2')(ctx2)
                        if mode == 'order2':
                            res2 = res2[0]
                        orc2 = _oracle(Fv, Mv, R, exactD, n1, n2)
                        r2, s2, m2 = ctx2.prove(expr(res2) == orc2, cap)
                        if r2 == 'sat':
                            wit = concretize_inputs(ctx2, [expr(res2) != orc2], coord_inputs, m2, grids=(1, 2, 4))
                        else:
                            rec['status'] = 'unknown'
                            rec['detail'] = 'order-abstraction counterexample not realised by exact geometry on the same path (%s)' % r2
                    except BaseException as e:  # noqa
                        rec['status'] = 'unknown'; rec['detail'] = 'realisation failed: %r' % (e,)
                else:
                    wit = concretize_inputs(ctx, [z3.Not(claim)], coord_inputs, m, grids=(1, 2, 4))
                if wit is not None:
                    rec['witness'] = {'kind': 'chi2', 'n1': n1, 'n2': n2, 'R': R, 'inputs': wit}
            records.append(rec)
            r, secs, m = ctx.prove(val >= 0, cap)
            records.append({'name': '%s path%d: value >= 0' % (tag, np_here), 'status': r, 'secs': secs})
            if second is not None:
                # history: the same calculator evaluated a first configuration before; the second value must still be the
                # reference definition of the second configuration alone
                claim2 = expr(second) == orc2nd
                r, secs, m = ctx.prove(claim2, cap)
                rec2 = {'name': '%s path%d: second call on the same calculator == reference definition' % (tag, np_here), 'status': r, 'secs': secs}
                if r == 'sat':
                    ctx2 = Ctx(list(ctx.decisions)); Ctx.cur = ctx2
                    try:
                        rr = make_run(R, 'exact2')(ctx2)
                        o2 = _oracle(Fv, M2v, R, exactD2, n1, n2)
                        r2, s2, m2 = ctx2.prove(expr(rr[1]) == o2, cap)
                        if r2 == 'sat':
                            rec2['witness'] = {'kind': 'chi2-two-calls', 'n1': n1, 'n2': n2, 'R': R,
                                               'inputs': concretize_inputs(ctx2, [expr(rr[1]) != o2], coord_inputs, m2, grids=(1, 2, 4))}
                        else:
                            rec2['status'] = 'unknown'; rec2['detail'] = 'not realised by exact geometry (%s)' % r2
                    except BaseException as e:  # noqa
                        rec2['status'] = 'unknown'; rec2['detail'] = 'realisation failed: %r' % (e,)
                records.append(rec2)
            st['queries'] += ctx.queries; st['solver_s'] += ctx.solver_time
            if len(samples) < 2:
                samples.append({'restraints': R, 'mode': mode, 'path_condition': [str(p)[:100] for p in ctx.pc][:5],
                                'value': str(z3.simplify(val))[:240]})
        # translator validation: real float Chi2Calculator vs the harness' reference formula on random numbers
        from scipy.spatial.distance import cdist as real_cdist
        be.cdist = real_cdist
        for _ in range(2):
            Fn = np.array([[rng.uniform(-2, 2) for _ in range(3)] for _ in range(n1)])
            An = np.array([[rng.uniform(-2, 2) for _ in range(3)] for _ in range(n2)])
            Mn = np.array([[rng.uniform(-2, 2) for _ in range(3)] for _ in range(n2)])
            npx.uninstall()
            got = be.Chi2Calculator(Fn, An, list(R) if R else None)(Mn)
            npx.install(modules=['gaddlemaps._backend'])
            want = _reference_float(Fn, Mn, R)
            ok = abs(got - want) <= 1e-9 * max(1, abs(want))
            records.append({'name': '%s: translator validation (float code vs reference on random numbers)' % tag,
                            'status': 'validated' if ok else 'sat', 'secs': 0,
                            'witness': None if ok else {'kind': 'chi2-float', 'n1': n1, 'n2': n2, 'R': R,
                                                        'F': Fn.tolist(), 'A': An.tolist(), 'M': Mn.tolist()}})
    return {'records': records, 'paths': st['paths'], 'queries': st['queries'], 'solver_s': st['solver_s'],
            'samples': samples, 'nontrivial': nontrivial}


def _reference_float(F, M, R):
    n1, n2 = len(F), len(M)
    tot = sum(float(np.sum((F[i] - M[j]) ** 2)) for i, j in R)
    used = {j for i, j in R}
    fixed_r = {i for i, j in R}
    for i in range(n1):
        if i in fixed_r:
            continue
        d = [float(np.sum((F[i] - M[j]) ** 2)) for j in range(n2)]
        j = min(range(n2), key=lambda q: (d[q], q))
        tot += d[j]
        used.add(j)
    return tot * 1.1 ** (n2 - len(used))


def replay(w):
    from symx.core import fval
    from gaddlemaps import Chi2Calculator
    n1, n2, R = w['n1'], w['n2'], [tuple(p) for p in w['R']]
    if w['kind'] == 'chi2-float':
        F, A, M = np.array(w['F']), np.array(w['A']), np.array(w['M'])
    else:
        v = {k: fval(x) for k, x in w['inputs'].items()}
        F = np.array([[v['f%d_%d' % (i, k)] for k in range(3)] for i in range(n1)])
        A = np.array([[v['a%d_%d' % (i, k)] for k in range(3)] for i in range(n2)])
        M = np.array([[v['m%d_%d' % (i, k)] for k in range(3)] for i in range(n2)])
    if w['kind'] == 'chi2-two-calls':
        Q = np.array([[v['q%d_%d' % (i, k)] for k in range(3)] for i in range(n2)])
        calc = Chi2Calculator(F, A, R if R else None)
        calc(M)
        got = calc(Q)
        want = _reference_float(F, Q, R)
        bad = abs(got - want) > 1e-9 * max(1, abs(want))
        return {'reproduced': bool(bad), 'what': 'Chi2Calculator (second call on the same calculator): value %.12g != reference %.12g' % (got, want),
                'detail': {'F': F.tolist(), 'M': M.tolist(), 'Q': Q.tolist(), 'R': R}}
    got = Chi2Calculator(F, A, R if R else None)(M)
    want = _reference_float(F, M, R)
    bad = abs(got - want) > 1e-9 * max(1, abs(want)) or got < 0
    path = 'no restraints' if not R else ('all fixed atoms restrained' if {i for i, j in R} == set(range(n1)) else 'partial restraints')
    return {'reproduced': bool(bad), 'what': 'Chi2Calculator (%s): value %.12g != reference %.12g' % (path, got, want),
            'detail': {'F': F.tolist(), 'A': A.tolist(), 'M': M.tolist(), 'R': R}}
