"""C02 - the exchange map commutes with rigid motion of the reference.
Four obligation groups (DESIGN 3/C02):
  euf/*      real calcule_base executed on uninterpreted vectors: frame(R P + t) = R frame(P), branch agreement;
             closure of the rotation axioms under composition
  axioms/*   the rotation axioms discharged componentwise for the elementary rotations about x, y, z
  call/*     real ExchangeMap.__call__ on R.ref + t with a frame stub whose second call returns the rotated frame
             (justified by euf/*): map(R ref + t) = R map(ref) + t for a free 3x3 R
  axis/*     real ExchangeMap + real calcule_base + symbolic random draws on 1-, 2- and 3-atom references:
             distance to the anchor and coordinate along the axis are preserved for every argument conformation
"""
import itertools
import numpy as np
import z3
from symx.core import twin_record as core_twin

ID = 'C02'
FUNCTIONS = ['gaddlemaps._auxilliary:calcule_base', 'gaddlemaps._exchage_map:ExchangeMap.__call__',
             'gaddlemaps._exchage_map:ExchangeMap._calculate_refsystems', 'gaddlemaps._exchage_map:ExchangeMap._calculate_refsystems_general',
             'gaddlemaps._exchage_map:ExchangeMap._restore_point', 'gaddlemaps._exchage_map:ExchangeMap._restore_molecule',
             'gaddlemaps._exchage_map:ExchangeMap._proyect_point', 'gaddlemaps._exchage_map:ExchangeMap._make_map']
EXPLANATION = ('(a) the real calcule_base is executed on terms of an uninterpreted sort Vec (vsub, sdiv, cross, norm, rot); with the '
               'rotation axioms the solver shows frame(R P + t) = R frame(P), origin\' = R origin + t and that P and R P + t take '
               'the same branch; the axioms are closed under composition (EUF) and hold componentwise for the elementary rotations '
               '(polynomial identities with c^2+s^2=1), which generate SO(3).  (b) the real ExchangeMap.__call__ runs on R.ref + t with '
               'calcule_base replaced by a contract stub (free frame on the reference, R.frame on the moved reference): '
               'map(R ref + t) = R map(ref) + t holds for a free 3x3 matrix R and free t.  (c) for references that leave an axis '
               'undetermined (1 atom, 2 atoms with the real random completion drawn symbolically, collinear anchors) the real code '
               'runs end to end and the invariants of the statement (distance to the anchor, coordinate along the axis) are proved '
               'for every argument conformation and every random draw.  (d) frame/*: the real calcule_base runs componentwise on a '
               'symbolic non-collinear triple P and on R P + T (R elementary rotation with symbolic (c, s), T symbolic): on every feasible '
               'pair of paths frame(R P + T) = R frame(P) and the origin moves with the triple (this also decides implementations of '
               'calcule_base that leave the vector-level fragment of (a), e.g. tolerance-based collinearity tests).')
BOUNDS = {'references': '1, 2, 3 atoms (axis invariants, all frame branches); 3-chain, 4-chain, 4-star, 4-ring (call plumbing)',
          'targets': '1-2 atoms', 'rotations': 'SO(3) through generators (elementary rotations, closure under composition)',
          'translations / scale': 'unbounded reals'}
OUTSIDE = ['binary64 rounding ("up to system-box scale" is irrelevant over the reals)',
           'Euler decomposition of SO(3) into elementary rotations (classical fact, trusted)',
           'the random completion point coinciding exactly with the atom (probability-zero draw)']
STUBS = ['numpy.isclose / allclose over the reals: |a-b| <= atol + rtol |b| (frame/*)', 'uninterpreted-sort numpy shim for calcule_base (euf/*): cross, linalg.norm, any, -, /',
         'calcule_base contract stub in call/* (free frame; second call = R.frame, justified by euf/*)',
         'np.random.rand -> fresh symbolic draws in [0,1)']
ASSUMPTIONS = ['references with three or more anchors: no two anchors exactly equidistant from a target atom', 'atoms at distinct positions', 'exact real arithmetic', 'random completion vectors are non-zero']
CASE_TIMEOUT = {'quick': 1200, 'thorough': 3000}
MAX_REPLAYS = 6


def cases(tier):
    cs = [{'name': 'euf/equivariance'}, {'name': 'euf/closure'}]
    for ax in 'xyz':
        cs.append({'name': 'axioms/R' + ax, 'axis': ax})
    for ax in 'xyz':
        cs.append({'name': 'frame/R' + ax, 'axis': ax})
    graphs = {'chain3': (3, [(0, 1), (1, 2)]), 'chain4': (4, [(0, 1), (1, 2), (2, 3)]), 'star4': (4, [(0, 1), (0, 2), (0, 3)]),
              'ring4': (4, [(0, 1), (1, 2), (2, 3), (0, 3)])}
    if tier == 'thorough':
        graphs.update({'chain5': (5, [(i, i + 1) for i in range(4)]), 'ring3': (3, [(0, 1), (1, 2), (0, 2)]),
                       'star5': (5, [(0, i) for i in range(1, 5)])})
    for nm, (n, g) in graphs.items():
        for nt in (1, 2):
            if nt == 2 and nm.startswith('ring') and tier == 'quick':
                continue
            cs.append({'name': 'call/%s/tgt%d' % (nm, nt), 'n': n, 'edges': g, 'nt': nt})
    for n in (1, 2, 3):
        for nt in ((1, 2) if tier == 'thorough' or n == 2 else (1,)):
            cs.append({'name': 'axis/ref%d/tgt%d' % (n, nt), 'n': n, 'nt': nt})
    return cs


# ------------------------------------------------------------------------------------------------------
def _euf(case, cap):
    import time
    import gaddlemaps._auxilliary as aux
    records = []
    V = z3.DeclareSort('Vec')
    Rl = z3.RealSort()
    vsub = z3.Function('vsub', V, V, V); vadd = z3.Function('vadd', V, V, V)
    sdiv = z3.Function('sdiv', V, Rl, V); cross = z3.Function('cross', V, V, V)
    norm = z3.Function('norm', V, Rl)
    zero = z3.Const('zero', V)
    x, y, k = z3.Const('x', V), z3.Const('y', V), z3.Real('k')

    def axioms(rot):
        return [z3.ForAll([x, y], rot(vsub(x, y)) == vsub(rot(x), rot(y))),
                z3.ForAll([x, k], rot(sdiv(x, k)) == sdiv(rot(x), k)),
                z3.ForAll([x], norm(rot(x)) == norm(x)),
                z3.ForAll([x, y], cross(rot(x), rot(y)) == rot(cross(x, y))),
                z3.ForAll([x], (rot(x) == zero) == (x == zero))]

    def chk(nm, hyps, neg):
        s = z3.Solver(); s.set('timeout', cap)
        s.add(*hyps); s.add(neg)
        t = time.time(); r = str(s.check())
        records.append({'name': nm, 'status': r, 'secs': round(time.time() - t, 3)})
        return r

    if case['name'].endswith('closure'):
        r1, r2 = z3.Function('rot1', V, V), z3.Function('rot2', V, V)
        comp = lambda v: r1(r2(v))
        a, b, kk = z3.Const('a', V), z3.Const('b', V), z3.Real('kk')
        H = axioms(r1) + axioms(r2)
        chk('closure: additive', H, comp(vsub(a, b)) != vsub(comp(a), comp(b)))
        chk('closure: commutes with scalar division', H, comp(sdiv(a, kk)) != sdiv(comp(a), kk))
        chk('closure: norm preserved', H, norm(comp(a)) != norm(a))
        chk('closure: cross product equivariant', H, cross(comp(a), comp(b)) != comp(cross(a, b)))
        chk('closure: kernel trivial', H, (comp(a) == zero) != (a == zero))
        # vacuity: the axioms are satisfiable (identity interpretation exists) - checked by a model query without negation
        s = z3.Solver(); s.set('timeout', cap); s.add(*axioms(r1))
        r = str(s.check())
        records.append({'name': 'reachability-twin', 'status': 'twin' if r == 'sat' else ('twin-fail' if r == 'unsat' else 'twin-unknown'), 'secs': 0})
        return {'records': records, 'paths': 0, 'queries': 6, 'solver_s': 0, 'samples': [{'axioms': [str(a_) for a_ in axioms(r1)]}],
                'nontrivial': ['closure%d' % i for i in range(5)]}

    rot = z3.Function('rot', V, V)
    t_ = z3.Const('t', V)
    AX = axioms(rot) + [z3.ForAll([x, y], vsub(vadd(x, t_), vadd(y, t_)) == vsub(x, y))]
    state = {'pc': [], 'dec': [], 'pos': 0}

    class Abort(BaseException):
        pass

    class SBool:
        def __init__(s, e): s.e = e
        def __bool__(s):
            d = state['dec'][state['pos']] if state['pos'] < len(state['dec']) else True
            if state['pos'] >= len(state['dec']):
                state['dec'].append(d)
            state['pos'] += 1
            state['pc'].append(s.e if d else z3.Not(s.e))
            return d

    class SScal:
        def __init__(s, e): s.e = e

    class SVec:
        def __init__(s, e): s.e = e
        def __sub__(s, o): return SVec(vsub(s.e, o.e))
        def __add__(s, o): return SVec(vadd(s.e, o.e))
        def __truediv__(s, k_): return SVec(sdiv(s.e, k_.e))
        __itruediv__ = __truediv__
        def __iter__(s): raise Abort('component access in vector mode')
        def __getitem__(s, i): raise Abort('component access in vector mode')

    class _LA:
        @staticmethod
        def norm(v): return SScal(norm(v.e))

    class NPV:
        linalg = _LA()
        def cross(self, a, b): return SVec(cross(a.e, b.e))
        def any(self, v): return SBool(v.e != zero)
        def all(self, v): raise Abort('np.all on a vector: componentwise test, outside the vector-level fragment')
        def __getattr__(self, n): return getattr(np, n)
    saved = aux.np
    aux.np = NPV()
    paths = 0
    samples = []
    try:
        p = [SVec(z3.Const('p%d' % i, V)) for i in range(3)]
        q = [SVec(vadd(rot(a.e), t_)) for a in p]
        # generic branch for P
        state.update(pc=[], dec=[True, True], pos=0)
        try:
            (v1, v2, v3), o = aux.calcule_base(p)
        except (Abort, Exception) as e:
            # operations outside {-, /, cross, norm, any}: inconclusive at vector level (frame/* decides componentwise)
            records.append({'name': 'generic branch of calcule_base leaves the vector-level fragment (%s: %s): rotation equivariance not decidable at vector level, see frame/*' % (type(e).__name__, str(e)[:80]),
                            'status': 'unknown', 'secs': 0})
            return {'records': records, 'paths': 1, 'queries': 0, 'solver_s': 0, 'samples': [], 'nontrivial': []}
        pc1 = list(state['pc'])
        try:
            (w1, w2, w3), o2 = aux.calcule_base(q)
        except (Abort, Exception) as e:
            records.append({'name': 'calcule_base on the moved triple leaves the vector-level fragment (%s): see frame/*' % type(e).__name__, 'status': 'unknown', 'secs': 0})
            return {'records': records, 'paths': 1, 'queries': 0, 'solver_s': 0, 'samples': [], 'nontrivial': []}
        pc_all = list(state['pc'])
        paths += 1
        for nm, a, b in (('v1', v1, w1), ('v2', v2, w2), ('v3', v3, w3)):
            chk('generic branch: %s(R P + t) = R %s(P)' % (nm, nm), AX + pc_all, b.e != rot(a.e))
        chk('origin(R P + t) = R origin(P) + t', AX, o2.e != vadd(rot(o.e), t_))
        chk('branch agreement: generic for P => generic for R P + t', AX + pc1, z3.Not(pc_all[len(pc1)]))
        chk('branch agreement: collinear for P => collinear for R P + t', AX + [z3.Not(c) for c in pc1], pc_all[len(pc1)])
        samples.append({'path_condition': [str(c) for c in pc_all], 'v3(RP+t)': str(w3.e)})
        # collinear branch reads components: outside the vector-level fragment (handled by axis/* componentwise)
        state.update(pc=[], dec=[False], pos=0)
        try:
            aux.calcule_base(p)
            records.append({'name': 'collinear branch leaves the vector-level fragment (component access)', 'status': 'skipped', 'secs': 0})
        except Abort:
            records.append({'name': 'collinear branch leaves the vector-level fragment (component access) - covered by axis/*', 'status': 'skipped', 'secs': 0})
        except Exception as e:  # the fixed fallback indexes/slices the vector: same meaning
            records.append({'name': 'collinear branch leaves the vector-level fragment (%s) - covered by axis/*' % type(e).__name__, 'status': 'skipped', 'secs': 0})
        paths += 1
        s = z3.Solver(); s.set('timeout', 5000); s.add(*AX); s.add(*pc_all)
        r = str(s.check())   # quantified axioms: 'unknown' is the usual answer; non-vacuity of the axioms is shown by axioms/*
        records.append({'name': 'reachability-twin', 'status': 'twin' if r == 'sat' else ('twin-fail' if r == 'unsat' else 'twin-unknown'), 'secs': 0})
    finally:
        aux.np = saved
    return {'records': records, 'paths': paths, 'queries': 7, 'solver_s': 0, 'samples': samples, 'nontrivial': ['generic', 'collinear']}


def _axioms(case, cap):
    import time
    records = []
    c, s = z3.Real('c'), z3.Real('s')
    ax = case['axis']
    R = {'x': [[1, 0, 0], [0, c, -s], [0, s, c]], 'y': [[c, 0, s], [0, 1, 0], [-s, 0, c]], 'z': [[c, -s, 0], [s, c, 0], [0, 0, 1]]}[ax]
    X = [z3.Real('x%d' % i) for i in range(3)]
    Y = [z3.Real('y%d' % i) for i in range(3)]
    k = z3.Real('k')
    rot = lambda v: [sum(R[i][j] * v[j] for j in range(3)) for i in range(3)]
    cr = lambda a, b: [a[1] * b[2] - a[2] * b[1], a[2] * b[0] - a[0] * b[2], a[0] * b[1] - a[1] * b[0]]
    H = [c * c + s * s == 1]
    veq = lambda a, b: z3.And(*[p == q for p, q in zip(a, b)])
    obl = [('additive', veq(rot([X[i] - Y[i] for i in range(3)]), [a - b for a, b in zip(rot(X), rot(Y))])),
           ('commutes with scalar division', z3.Implies(k != 0, veq(rot([X[i] / k for i in range(3)]), [a / k for a in rot(X)]))),
           ('norm preserved', sum(a * a for a in rot(X)) == sum(a * a for a in X)),
           ('cross product equivariant', veq(cr(rot(X), rot(Y)), rot(cr(X, Y)))),
           ('kernel trivial', veq(rot(X), [0, 0, 0]) == veq(X, [0, 0, 0])),
           ('proper: det = +1', (R[0][0] * (R[1][1] * R[2][2] - R[1][2] * R[2][1]) - R[0][1] * (R[1][0] * R[2][2] - R[1][2] * R[2][0])
                                 + R[0][2] * (R[1][0] * R[2][1] - R[1][1] * R[2][0])) == 1)]
    for nm, cl in obl:
        sol = z3.Solver(); sol.set('timeout', cap); sol.add(*H); sol.add(z3.Not(cl))
        t = time.time(); r = str(sol.check())
        records.append({'name': 'R%s(c,s): %s' % (ax, nm), 'status': r, 'secs': round(time.time() - t, 3)})
    return {'records': records, 'paths': 0, 'queries': len(obl), 'solver_s': 0, 'samples': [{'R': str(R)}], 'nontrivial': [o[0] for o in obl]}


def _call(case, cap):
    """real __call__ with the frame contract stub"""
    from symx.core import explore, SymReal, expr, concretize_inputs, Ctx
    from symx import npx
    from symx.mol import make_molecule, simple_atoms
    npx.install()
    import gaddlemaps._exchage_map as em
    from gaddlemaps import ExchangeMap
    n, edges, nt = case['n'], [tuple(e) for e in case['edges']], case['nt']
    records, samples, nontrivial = [], [], []
    st = {'paths': 0, 'queries': 0, 'solver_s': 0.0}
    rv = [[z3.Real('r%d_%d' % (i, k)) for k in range(3)] for i in range(n)]
    tv = [[z3.Real('t%d_%d' % (j, k)) for k in range(3)] for j in range(nt)]
    Rv = [[z3.Real('R%d%d' % (i, j)) for j in range(3)] for i in range(3)]
    Tv = [z3.Real('T%d' % i) for i in range(3)]
    s = z3.Real('s')
    inputs = {'r%d_%d' % (i, k): rv[i][k] for i in range(n) for k in range(3)}
    inputs.update({'t%d_%d' % (j, k): tv[j][k] for j in range(nt) for k in range(3)})
    inputs.update({'R%d%d' % (i, j): Rv[i][j] for i in range(3) for j in range(3)})
    inputs.update({'T%d' % i: Tv[i] for i in range(3)})
    inputs['s'] = s
    stub_state = {}

    def stub(pos):
        c = Ctx.cur
        key = tuple(z3.simplify(expr(x)).sexpr() for p in pos for x in p)
        stub_state['calls'].append(key)
        if stub_state['moved']:
            k0 = stub_state['keymap'][key]
            if k0 not in stub_state['frames']:       # a triple the reference call did not use: its frame is a free frame too
                stub_state['frames'][k0] = [np.array([SymReal(c.freshvar('F%d%d_' % (j, k))) for k in range(3)], dtype=object) for j in range(3)]
            base = stub_state['frames'][k0]
            Rm = np.array([[SymReal(v) for v in row] for row in Rv], dtype=object)
            return tuple(Rm.dot(v) for v in base), pos[0]
        if key not in stub_state['frames']:
            stub_state['frames'][key] = [np.array([SymReal(c.freshvar('F%d%d_' % (j, k))) for k in range(3)], dtype=object) for j in range(3)]
        return tuple(stub_state['frames'][key]), pos[0]
    em.calcule_base = stub

    def run(ctx):
        stub_state.update(frames={}, moved=False, keymap={}, calls=[])
        ctx.assume(s > 0)
        for i in range(n):
            for j in range(i):
                ctx.assume(z3.Or(*[rv[i][k] != rv[j][k] for k in range(3)]))
        anchors_ = [i for i in range(n) if sum(1 for e in edges if i in e) >= 2]
        if len(anchors_) >= 3:
            from symx.frames import assume_no_distance_ties
            assume_no_distance_ties(ctx, tv, [rv[a_] for a_ in anchors_])
        refc = [np.array([SymReal(v) for v in row], dtype=object) for row in rv]
        Rm = np.array([[SymReal(v) for v in row] for row in Rv], dtype=object)
        Tm = np.array([SymReal(v) for v in Tv], dtype=object)
        movc = [Rm.dot(x) + Tm for x in refc]
        mk = lambda cs: make_molecule('REF', simple_atoms(n, 'C', 'REF'), edges, cs)
        ref, mov = mk(refc), mk(movc)
        tgt = make_molecule('TGT', simple_atoms(nt, 'A', 'TGT'), [(j, j + 1) for j in range(nt - 1)], [[SymReal(v) for v in row] for row in tv])
        m = ExchangeMap(ref, tgt, SymReal(s))
        ncalls_construct = len(stub_state['calls'])
        pc_mark0 = len(ctx.pc)
        out = m(ref).atoms_positions
        # contract: the frame of a moved triple is R.(frame of the same triple in the reference), whichever neighbours
        # the code under test picks for an anchor
        for idx in itertools.permutations(range(n), 3):
            k0 = tuple(z3.simplify(expr(x)).sexpr() for i in idx for x in refc[i])
            k1 = tuple(z3.simplify(expr(x)).sexpr() for i in idx for x in movc[i])
            stub_state['keymap'][k1] = k0
        stub_state['moved'] = True
        mark = len(stub_state['calls'])
        out2 = m(mov).atoms_positions
        stub_state['call_pc'] = (pc_mark0, len(ctx.pc))
        nc2 = len(stub_state['calls']) - mark
        # the same molecule object moved in place by the caller (rotate / move), then mapped again
        stub_state['moved'] = False
        same = mk(refc)
        m(same)
        same.atoms_positions = np.array(movc, dtype=object)
        stub_state['moved'] = True
        out3 = m(same).atoms_positions
        return out, out2, ncalls_construct, nc2, Rm, Tm, out3

    def two_sided(cond):
        """an ordering / equality test between two computed (non-constant) quantities -> (lhs, rhs) or None"""
        e = cond
        while z3.is_not(e):
            e = e.arg(0)
        if not (z3.is_lt(e) or z3.is_le(e) or z3.is_gt(e) or z3.is_ge(e) or z3.is_eq(e) or z3.is_distinct(e)) or e.num_args() != 2:
            return None
        a, b = e.arg(0), e.arg(1)
        if not (z3.is_arith(a) and z3.is_arith(b)):
            return None
        from symx.core import term_vars
        if not term_vars(a) or not term_vars(b):
            return None
        return a, b

    def _upto(ctx, i):
        import copy
        c2 = copy.copy(ctx)
        c2.pc = ctx.pc[:i]
        return c2

    from symx.core import Budget
    tie_seen = {'n': 0, 'inspected': 0}

    def paths():
        try:
            yield from explore(run, max_paths=3000, max_seconds=0.55 * CASE_TIMEOUT[case.get('tier', 'quick')])
        except Budget as e:
            records.append({'name': 'exploration incomplete (%s): remaining paths undecided' % e, 'status': 'unknown', 'secs': 0})

    for ctx, res, exc in paths():
        st['paths'] += 1
        pidx = st['paths']
        if res is None:
            records.append({'name': 'path%d: aborted %r' % (pidx, exc), 'status': 'error', 'secs': 0, 'detail': repr(exc)})
            continue
        nontrivial.append('path%d' % pidx)
        out, out2, nc, nc2, Rm, Tm, out3 = res
        if pidx == 1:
            records.append(core_twin(ctx, cap))
        # rounding decides ties: binary64 gives two quantities that are equal over the reals an arbitrary order.  An
        # ordering test between two computed quantities inside __call__ whose operands can be equal is therefore a
        # candidate for a motion-dependent result; the candidate is confirmed (or not) by the binary64 replay.
        lo, hi = stub_state.get('call_pc', (0, 0))
        for i in range(lo, min(hi, len(ctx.pc))):
            ts = two_sided(ctx.pc[i])
            tie_seen['inspected'] += 1
            if ts is None or tie_seen['n'] >= 3:
                continue
            r, mo = ctx._check([ts[0] == ts[1]], 20000, want_model=True, upto=i)
            if r == 'sat':
                tie_seen['n'] += 1
                records.append({'name': 'path%d: __call__ orders two computed quantities that can be exactly equal (%s): rounding would decide' % (pidx, str(z3.simplify(ctx.pc[i]))[:80]),
                                'status': 'sat', 'secs': 0,
                                'witness': {'kind': 'call', 'n': n, 'edges': edges, 'nt': nt, 'tie': True,
                                            'inputs': concretize_inputs(_upto(ctx, i), [ts[0] == ts[1]], inputs, mo, grids=(1, 2, 8, 64))}})
        nanch = sum(1 for i in range(n) if sum(1 for e in edges if i in e) >= 2)
        ok = nc == nanch and nc2 == nanch
        records.append({'name': 'path%d: frames recomputed from the argument for every anchor on each call (%d anchors, %d/%d frame calls)' % (pidx, nanch, nc, nc2),
                        'status': 'unsat' if ok else 'sat', 'secs': 0, 'witness': None})
        for k in range(nt):
            exp = Rm.dot(out[k]) + Tm
            claim = z3.And(*[expr(out2[k][c]) == expr(exp[c]) for c in range(3)])
            r, secs, mo = ctx.prove(claim, 60000)
            rec = {'name': 'path%d tgt%d: map(R ref + t) = R map(ref) + t' % (pidx, k), 'status': r, 'secs': secs}
            if r == 'sat':
                rec['witness'] = {'kind': 'call', 'n': n, 'edges': edges, 'nt': nt, 'inputs': concretize_inputs(ctx, [z3.Not(claim)], inputs, mo)}
            records.append(rec)
            claim = z3.And(*[expr(out3[k][c]) == expr(exp[c]) for c in range(3)])
            r, secs, mo = ctx.prove(claim, 60000)
            rec = {'name': 'path%d tgt%d: same molecule object moved in place then mapped again: R map(ref) + t' % (pidx, k), 'status': r, 'secs': secs}
            if r == 'sat':
                rec['witness'] = {'kind': 'call', 'n': n, 'edges': edges, 'nt': nt, 'inputs': concretize_inputs(ctx, [z3.Not(claim)], inputs, mo)}
            records.append(rec)
        if len(samples) < 2:
            samples.append({'graph': edges, 'path_condition': [str(p)[:80] for p in ctx.pc][:4]})
        st['queries'] += ctx.queries; st['solver_s'] += ctx.solver_time
    if not tie_seen['n']:
        records.append({'name': 'no ordering test between two computed quantities that can tie inside __call__ (%d branch conditions inspected)' % tie_seen['inspected'],
                        'status': 'unsat', 'secs': 0})
    return {'records': records, 'paths': st['paths'], 'queries': st['queries'], 'solver_s': st['solver_s'], 'samples': samples, 'nontrivial': nontrivial}


def _frame(case, cap):
    """the real calcule_base, componentwise, on a non-collinear triple P and on R P + T (R an elementary rotation with
    symbolic (c, s), T a symbolic translation): on every feasible path frame(R P + T) = R frame(P), origin moved with it"""
    from symx.core import explore, SymReal, expr, concretize_inputs
    from symx import npx
    npx.install()
    import gaddlemaps._auxilliary as aux
    ax = case['axis']
    records, samples, nontrivial = [], [], []
    st = {'paths': 0, 'queries': 0, 'solver_s': 0.0}
    c, s_ = z3.Real('c'), z3.Real('s')
    R = {'x': [[1, 0, 0], [0, c, -s_], [0, s_, c]], 'y': [[c, 0, s_], [0, 1, 0], [-s_, 0, c]], 'z': [[c, -s_, 0], [s_, c, 0], [0, 0, 1]]}[ax]
    pv = [[z3.Real('p%d_%d' % (i, k)) for k in range(3)] for i in range(3)]
    Tv = [z3.Real('T%d' % k) for k in range(3)]
    tpar = z3.Real('tpar')
    rot = lambda v: [sum(R[i][j] * v[j] for j in range(3)) for i in range(3)]
    inputs = {'p%d_%d' % (i, k): pv[i][k] for i in range(3) for k in range(3)}
    inputs.update({'T%d' % k: Tv[k] for k in range(3)})
    small = min(cap, 40000)

    def run(ctx):
        ctx.assume(c * c + s_ * s_ == 1)
        a = [pv[2][k] - pv[0][k] for k in range(3)]
        b = [pv[1][k] - pv[0][k] for k in range(3)]
        cr = [a[1] * b[2] - a[2] * b[1], a[2] * b[0] - a[0] * b[2], a[0] * b[1] - a[1] * b[0]]
        ctx.assume(z3.Or(*[x != 0 for x in cr]))           # the three atoms are not collinear (collinear anchors: axis/ref3)
        P = [np.array([SymReal(v) for v in row], dtype=object) for row in pv]
        Q = [np.array([SymReal(rot(row)[k] + Tv[k]) for k in range(3)], dtype=object) for row in pv]
        fP, oP = aux.calcule_base(P)
        fQ, oQ = aux.calcule_base(Q)
        return fP, oP, fQ, oQ

    def wit(ctx, claim, model):
        # rational parametrisation of the rotation for the replay: c = (1-t^2)/(1+t^2), s = 2t/(1+t^2)
        extra = [z3.Not(claim), c * (1 + tpar * tpar) == 1 - tpar * tpar, s_ * (1 + tpar * tpar) == 2 * tpar]
        r, m2 = ctx._check(extra, 20000, want_model=True)
        if r == 'sat':
            return {'kind': 'frame', 'axis': ax, 'inputs': concretize_inputs(ctx, extra, dict(inputs, tpar=tpar), m2, grids=(1, 2, 8, 64))}
        return {'kind': 'frame', 'axis': ax, 'inputs': concretize_inputs(ctx, [z3.Not(claim)], dict(inputs, c=c, s=s_), model, grids=(1, 2, 8, 64))}

    for ctx, res, exc in explore(run, max_paths=60):
        st['paths'] += 1
        pidx = st['paths']
        if res is None:
            r, m_ = ctx._check([], small, want_model=True)
            rec = {'name': 'path%d: calcule_base returns a finite frame for a non-collinear triple and its rigidly moved copy (%r)' % (pidx, exc), 'status': r, 'secs': 0}
            if r == 'sat':
                rec['witness'] = wit(ctx, z3.BoolVal(False), m_)
            records.append(rec)
            st['queries'] += ctx.queries; st['solver_s'] += ctx.solver_time
            continue
        nontrivial.append('path%d' % pidx)
        fP, oP, fQ, oQ = res
        if pidx == 1:
            records.append(core_twin(ctx, cap))
        claim = z3.And(*[expr(oQ[k]) == rot([expr(x) for x in oP])[k] + Tv[k] for k in range(3)])
        r, secs, mo = ctx.prove(claim, small)
        rec = {'name': 'path%d: origin(R P + T) = R origin(P) + T' % pidx, 'status': r, 'secs': secs}
        if r == 'sat':
            rec['witness'] = wit(ctx, claim, mo)
        records.append(rec)
        proven, pending = [], []
        for j in range(3):
            want = rot([expr(fP[j][k]) for k in range(3)])
            claim = z3.And(*[expr(fQ[j][k]) == want[k] for k in range(3)])
            r, secs, mo = ctx.prove(claim, small)
            if r == 'unknown':
                pending.append((j, claim)); continue
            rec = {'name': 'path%d: frame vector %d of (R P + T) = R (frame vector %d of P)' % (pidx, j + 1, j + 1), 'status': r, 'secs': secs}
            if r == 'sat':
                rec['witness'] = wit(ctx, claim, mo)
            else:
                proven.append(j)
            records.append(rec)
        for j, claim in pending:
            # the vectors already shown equivariant are abstracted (fresh variables tied by the proved equalities): what is
            # left is the algebraic identity that builds this vector from them
            sub, lem = [], []
            for i in proven:
                qa = [z3.Real('fq%d_%d!abs' % (i, k)) for k in range(3)]
                pa = [z3.Real('fp%d_%d!abs' % (i, k)) for k in range(3)]
                sub += [(expr(fQ[i][k]), qa[k]) for k in range(3)] + [(expr(fP[i][k]), pa[k]) for k in range(3)]
                lem += [qa[k] == rot(pa)[k] for k in range(3)]
            r, secs, mo = ctx.prove_abstracted(claim, sub, lem, small) if sub else ctx.prove(claim, cap)
            rec = {'name': 'path%d: frame vector %d of (R P + T) = R (frame vector %d of P) [other vectors abstracted]' % (pidx, j + 1, j + 1), 'status': r, 'secs': secs}
            if r == 'sat':
                rec['witness'] = wit(ctx, claim, mo)
            records.append(rec)
        if len(samples) < 2:
            samples.append({'axis': ax, 'path_condition': [str(z3.simplify(p_))[:90] for p_ in ctx.pc][:4]})
        st['queries'] += ctx.queries; st['solver_s'] += ctx.solver_time
    return {'records': records, 'paths': st['paths'], 'queries': st['queries'], 'solver_s': st['solver_s'], 'samples': samples, 'nontrivial': nontrivial}


def _axis(case, cap):
    """real code end to end on 1-, 2-, 3-atom references; invariants of the statement for every argument conformation"""
    from symx.core import explore, SymReal, expr, concretize_inputs, Ctx
    from symx import npx
    from symx.mol import make_molecule, simple_atoms
    from symx.frames import prove_frame, norm_lemmas, frame_of_passes, axis_lemma
    rnd = npx.RandomStub()
    npx.install(random=rnd)
    from gaddlemaps import ExchangeMap
    n, nt = case['n'], case['nt']
    edges = [(i, i + 1) for i in range(n - 1)]
    records, samples, nontrivial = [], [], []
    st = {'paths': 0, 'queries': 0, 'solver_s': 0.0, 'lem': None, 'axl': None}
    xv = [[z3.Real('x%d_%d' % (i, k)) for k in range(3)] for i in range(n)]
    yv = [[z3.Real('y%d_%d' % (i, k)) for k in range(3)] for i in range(n)]
    tv = [[z3.Real('t%d_%d' % (j, k)) for k in range(3)] for j in range(nt)]
    s = z3.Real('s')
    inputs = {}
    for nm, V in (('x', xv), ('y', yv), ('t', tv)):
        for i, row in enumerate(V):
            for k in range(3):
                inputs['%s%d_%d' % (nm, i, k)] = row[k]
    inputs['s'] = s
    anchor = 1 if n == 3 else 0
    axis_to = {1: None, 2: 1, 3: 2}[n]     # the atom that defines the axis direction from the anchor

    def run(ctx):
        ctx.assume(z3.And(s > 0, s <= 2))
        for V in (xv, yv):
            for i in range(n):
                for j in range(i):
                    ctx.assume(z3.Or(*[V[i][k] != V[j][k] for k in range(3)]))
        mk = lambda V: make_molecule('REF', simple_atoms(n, 'C', 'REF'), edges, [[SymReal(v) for v in row] for row in V])
        tgt = make_molecule('TGT', simple_atoms(nt, 'A', 'TGT'), [(j, j + 1) for j in range(nt - 1)], [[SymReal(v) for v in row] for row in tv])
        mark = len(ctx.log)
        m = ExchangeMap(mk(xv), tgt, SymReal(s))
        fX = dict(m._refsystems)
        out = m(mk(yv)).atoms_positions
        fY = dict(m._refsystems)
        draws = [l[2] for l in ctx.log[mark:] if l[0] == 'draw']
        for d in draws:       # probability-zero draw: the random completion point coincides with the atom
            ctx.assume(z3.Or(*[expr(c) != 0 for c in d]))
        return m, fX, fY, out, draws

    def wit(ctx, extra, model, nm):
        return {'kind': 'axis', 'n': n, 'nt': nt, 'obligation': nm, 'inputs': concretize_inputs(ctx, extra, inputs, model, grids=(1, 2, 4))}

    for ctx, res, exc in explore(run, max_paths=3000):
        st['paths'] += 1
        pidx = st['paths']
        if res is None:
            draws = [l[2] for l in ctx.log if l[0] == 'draw']
            extra = [z3.Or(*[expr(c) != 0 for c in d]) for d in draws]
            r, m_ = ctx._check(extra, cap, want_model=True)
            rec = {'name': 'path%d: finite frames (no 0/0) for distinct atoms and non-zero random completion' % pidx, 'status': r, 'secs': 0}
            if r == 'sat':
                rec['witness'] = wit(ctx, extra, m_, 'finite')
            records.append(rec)
            st['queries'] += ctx.queries; st['solver_s'] += ctx.solver_time
            continue
        nontrivial.append('path%d' % pidx)
        m, fX, fY, out, draws = res
        if pidx <= 2:
            records.append(core_twin(ctx, cap))
        if st['lem'] is None:
            st['lem'] = norm_lemmas(ctx, cap, records, 'path%d' % pidx) or False
            st['axl'] = axis_lemma(ctx, cap, records, 'path%d' % pidx) or False
        key = list(fX)[0]
        okx, px, lx = prove_frame(ctx, fX[key][0], cap, 'path%d frame(X)' % pidx, records, wit, abs_tag='X')
        oky, py, ly = prove_frame(ctx, fY[key][0], cap, 'path%d frame(Y)' % pidx, records, wit, abs_tag='Y')
        ok = okx and oky and st['lem'] and st['axl']
        cl = z3.And(*[expr(fX[key][1][c]) == xv[anchor][c] for c in range(3)] + [expr(fY[key][1][c]) == yv[anchor][c] for c in range(3)])
        r, secs, mo = ctx.prove(cl, cap)
        records.append({'name': 'path%d: frame origins = anchor atom in X and in Y' % pidx, 'status': r, 'secs': secs,
                        'witness': wit(ctx, [z3.Not(cl)], mo, 'origin') if r == 'sat' else None})
        if axis_to is not None:
            # the first frame vector is the unit vector along the molecular axis (anchor -> axis atom), in X and in Y
            for nm, fr, V in (('X', fX, xv), ('Y', fY, yv)):
                d = [V[axis_to][c] - V[anchor][c] for c in range(3)]
                v1 = fr[key][0][0]
                crs = [expr(v1[1]) * d[2] - expr(v1[2]) * d[1], expr(v1[2]) * d[0] - expr(v1[0]) * d[2], expr(v1[0]) * d[1] - expr(v1[1]) * d[0]]
                cl = z3.And(*[x == 0 for x in crs] + [sum(expr(v1[c]) * d[c] for c in range(3)) > 0])
                r, secs, mo = ctx.prove(cl, cap)
                rec = {'name': 'path%d: first frame vector points along the molecular axis in %s' % (pidx, nm), 'status': r, 'secs': secs}
                if r == 'sat':
                    rec['witness'] = wit(ctx, [z3.Not(cl)], mo, 'axis direction')
                records.append(rec)
        FX, FY = (frame_of_passes(px), frame_of_passes(py)) if (okx and oky) else (None, None)
        for k in range(nt):
            w = [tv[k][c] - xv[anchor][c] for c in range(3)]
            proj = [expr(m._target_coordinates[k][j]) for j in range(3)]
            pif = [z3.Real('pi%d!abs%d' % (k, j)) for j in range(3)]
            delta = [expr(out[k][c]) - yv[anchor][c] for c in range(3)]
            steps = [('|map(Y) - a_Y|^2 = |stored projection|^2', sum(x * x for x in delta) == sum(x * x for x in proj),
                      ([[(proj[j], pif[j]) for j in range(3)]] + py, [st['lem'][0](FY, pif)]) if ok else None),
                     ('|stored projection|^2 = s^2 |p - a_X|^2', sum(x * x for x in proj) == s * s * sum(x * x for x in w),
                      (px, [st['lem'][1](FX, w, s)]) if ok else None)]
            if axis_to is not None:
                v1y = fY[key][0][0]
                v1x = fX[key][0][0]
                steps += [('(map(Y) - a_Y) . axis_Y = first stored projection', sum(delta[c] * expr(v1y[c]) for c in range(3)) == proj[0],
                           ([[(proj[j], pif[j]) for j in range(3)]] + py, [st['axl'](FY, pif)]) if ok else None),
                          ('first stored projection = s (p - a_X) . axis_X', proj[0] == s * sum(w[c] * expr(v1x[c]) for c in range(3)), None)]
            for nm, claim, ab in steps:
                if ab is not None:
                    r, secs, mo = ctx.prove_abstracted(claim, ab[0], ab[1], cap, drop_prefixes=('sqrt!',))
                else:
                    r, secs, mo = ctx.prove(claim, cap)
                rec = {'name': 'path%d tgt%d: %s' % (pidx, k, nm), 'status': r, 'secs': secs}
                if r == 'sat':
                    rec['witness'] = wit(ctx, [z3.Not(claim)], mo, nm)
                records.append(rec)
        if len(samples) < 3:
            samples.append({'reference_atoms': n, 'draws': len(draws), 'path_condition': [str(p)[:90] for p in ctx.pc][:5]})
        st['queries'] += ctx.queries; st['solver_s'] += ctx.solver_time
    return {'records': records, 'paths': st['paths'], 'queries': st['queries'], 'solver_s': st['solver_s'], 'samples': samples, 'nontrivial': nontrivial}


def run_case(case):
    cap = 60000 if case['tier'] == 'quick' else 180000
    nm = case['name']
    if nm.startswith('euf/'):
        return _euf(case, cap)
    if nm.startswith('axioms/'):
        return _axioms(case, cap)
    if nm.startswith('call/'):
        return _call(case, cap)
    if nm.startswith('frame/'):
        return _frame(case, cap)
    return _axis(case, cap)


def replay(w):
    from symx.core import fval
    from symx.mol import make_molecule, simple_atoms
    from gaddlemaps import ExchangeMap, rotation_matrix
    v = {k: fval(x) for k, x in w['inputs'].items()}
    bad = []
    if w['kind'] == 'call':
        n, nt, edges = w['n'], w['nt'], [tuple(e) for e in w['edges']]
        Rr = np.array([[v['r%d_%d' % (i, k)] for k in range(3)] for i in range(n)])
        T = np.array([[v['t%d_%d' % (j, k)] for k in range(3)] for j in range(nt)])
        s = v['s']
        mk = lambda C: make_molecule('REF', simple_atoms(n, 'C', 'REF'), edges, C)
        tgt = make_molecule('TGT', simple_atoms(nt, 'A', 'TGT'), [(j, j + 1) for j in range(nt - 1)], T)
        m = ExchangeMap(mk(Rr), tgt, s)
        out = m(mk(Rr)).atoms_positions
        rs = np.random.RandomState(7)
        for _ in range(5):
            Rot = rotation_matrix(rs.uniform(-1, 1, 3), rs.uniform(-3, 3))
            t = rs.uniform(-5, 5, 3)
            out2 = m(mk(Rr @ Rot.T + t)).atoms_positions
            if np.abs(out2 - (out @ Rot.T + t)).max() > 1e-8:
                bad.append('map(R ref + t) != R map(ref) + t (max deviation %.3g nm)' % np.abs(out2 - (out @ Rot.T + t)).max())
                break
            same = mk(Rr)
            m(same)
            same.atoms_positions = Rr @ Rot.T + t          # the caller moves the same object in place
            out3 = m(same).atoms_positions
            if np.abs(out3 - (out @ Rot.T + t)).max() > 1e-8:
                bad.append('molecule moved in place and mapped again: result is not R map(ref) + t (max deviation %.3g nm)' % np.abs(out3 - (out @ Rot.T + t)).max())
                break
        return {'reproduced': bool(bad), 'what': 'ExchangeMap rigid-motion equivariance (%d-atom reference): %s' % (n, '; '.join(bad)),
                'detail': {'ref': Rr.tolist(), 'edges': edges}}
    if w['kind'] == 'frame':
        # the triple handed to calcule_base for the middle atom of a 3-chain is [atom 1, atom 0, atom 2]
        p = np.array([[v['p%d_%d' % (i, k)] for k in range(3)] for i in range(3)])
        X = np.array([p[1], p[0], p[2]])
        if 'tpar' in v:
            c, s_ = (1 - v['tpar'] ** 2) / (1 + v['tpar'] ** 2), 2 * v['tpar'] / (1 + v['tpar'] ** 2)
        else:
            h = np.hypot(v['c'], v['s']); c, s_ = v['c'] / h, v['s'] / h
        Rot = {'x': np.array([[1, 0, 0], [0, c, -s_], [0, s_, c]]), 'y': np.array([[c, 0, s_], [0, 1, 0], [-s_, 0, c]]),
               'z': np.array([[c, -s_, 0], [s_, c, 0], [0, 0, 1]])}[w['axis']]
        T0 = np.array([v['T%d' % k] for k in range(3)])
        mk = lambda C: make_molecule('REF', simple_atoms(3, 'C', 'REF'), [(0, 1), (1, 2)], C)
        worst = 0.0
        for tg in ([[0.3, 0.5, 0.7]], [[-0.4, 0.2, 0.6]]):
            tgt = make_molecule('TGT', simple_atoms(1, 'A', 'TGT'), [], X[1] + np.array(tg))
            with np.errstate(all='ignore'):
                m = ExchangeMap(mk(X), tgt, 1.0)
                out = m(mk(X)).atoms_positions
                for Rm, t in ((Rot, T0), (np.eye(3), T0), (Rot, np.zeros(3)), (Rot.T, -T0)):
                    out2 = m(mk(X @ Rm.T + t)).atoms_positions
                    dev = np.abs(out2 - (out @ Rm.T + t)).max()
                    worst = max(worst, dev if np.isfinite(dev) else np.inf)
        if worst > 1e-8:
            bad.append('map(R ref + t) != R map(ref) + t for a non-collinear 3-atom reference (max deviation %.3g nm)' % worst)
        return {'reproduced': bool(bad), 'what': 'ExchangeMap rigid-motion equivariance, witness motion (rotation about %s, translation %s): %s' % (
            w['axis'], np.round(T0, 3).tolist(), '; '.join(bad)), 'detail': {'ref': X.tolist(), 'c': c, 's': s_}}
    n, nt = w['n'], w['nt']
    edges = [(i, i + 1) for i in range(n - 1)]
    X = np.array([[v['x%d_%d' % (i, k)] for k in range(3)] for i in range(n)])
    Y = np.array([[v['y%d_%d' % (i, k)] for k in range(3)] for i in range(n)])
    T = np.array([[v['t%d_%d' % (j, k)] for k in range(3)] for j in range(nt)])
    s = v['s']
    anchor = 1 if n == 3 else 0
    axis_to = {1: None, 2: 1, 3: 2}[n]
    mk = lambda C: make_molecule('REF', simple_atoms(n, 'C', 'REF'), edges, C)
    tgt = make_molecule('TGT', simple_atoms(nt, 'A', 'TGT'), [(j, j + 1) for j in range(nt - 1)], T)
    state = np.random.get_state()
    # the frame-direction obligations do not involve the target: if the witness target is degenerate (on the anchor /
    # on the axis) the defect is observed with generic target positions instead
    targets = [T, X[anchor] + np.array([[0.3 + 0.1 * j, 0.5, 0.7 - 0.2 * j] for j in range(nt)]),
               X[anchor] + np.array([[-0.4, 0.2 + 0.3 * j, 0.6] for j in range(nt)])]
    try:
      for T in targets:
        tgt = make_molecule('TGT', simple_atoms(nt, 'A', 'TGT'), [(j, j + 1) for j in range(nt - 1)], T)
        if bad:
            break
        for seed in range(4):
              np.random.seed(seed)
              with np.errstate(all='ignore'):
                  m = ExchangeMap(mk(X), tgt, s)
                  for rep in range(3):
                      out = m(mk(Y)).atoms_positions
                      for k in range(nt):
                          if not np.all(np.isfinite(out[k])):
                              bad.append('non-finite mapped coordinates'); continue
                          if abs(np.linalg.norm(out[k] - Y[anchor]) - s * np.linalg.norm(T[k] - X[anchor])) > 1e-8:
                              bad.append('distance to the anchor not preserved')
                          if axis_to is not None:
                              eX = (X[axis_to] - X[anchor]) / np.linalg.norm(X[axis_to] - X[anchor])
                              eY = (Y[axis_to] - Y[anchor]) / np.linalg.norm(Y[axis_to] - Y[anchor])
                              if abs(np.dot(out[k] - Y[anchor], eY) - s * np.dot(T[k] - X[anchor], eX)) > 1e-8:
                                  bad.append('coordinate along the molecular axis not preserved (%.6g vs %.6g)' % (
                                      np.dot(out[k] - Y[anchor], eY), s * np.dot(T[k] - X[anchor], eX)))
              if bad:
                  break
    finally:
        np.random.set_state(state)
    bad = sorted(set(bad))
    return {'reproduced': bool(bad), 'what': 'ExchangeMap on a %d-atom reference: %s' % (n, '; '.join(bad)[:300]),
            'detail': {'X': X.tolist(), 'Y': Y.tolist(), 'T': T.tolist(), 's': s}}
