"""C06 - alignment moves molecules only by structure-preserving transformations.
(glue)  real Alignment (setters, align_molecules, remove_hydrogens, are_connected, Molecule.bonds_distance) on symbolic
        coordinates with the optimiser replaced by a recorder that returns fresh coordinates;
(step)  one iteration of the real Monte-Carlo loop from an arbitrary held configuration: translation and rotation
        proposals preserve every pairwise distance (the single-atom move is C07, the bookkeeping C09)."""
import itertools
import numpy as np
import z3
from symx.core import twin_record as core_twin

ID = 'C06'
FUNCTIONS = ['gaddlemaps._alignment:Alignment.__init__', 'gaddlemaps._alignment:Alignment.start', 'gaddlemaps._alignment:Alignment.end',
             'gaddlemaps._alignment:Alignment.align_molecules', 'gaddlemaps._alignment:remove_hydrogens', 'gaddlemaps.components._components:Molecule.bonds_distance',
             'gaddlemaps.components._residue:Residue.move_to', 'gaddlemaps.components:are_connected', 'gaddlemaps._backend:_minimize_molecules',
             'gaddlemaps._auxilliary:rotation_matrix']
EXPLANATION = ('Glue: for both size orders and ties, hydrogen filtering on/off, restraint lists and deformation subsets, the real align_molecules runs '
               'on symbolic coordinates with minimize_molecules replaced by a recorder returning fresh symbolic coordinates Z.  SMT / term-identity '
               'obligations: the caller\'s Molecule objects keep their coordinate terms; the larger molecule (ties: start) is only translated - by '
               'centre(end) - centre(start) if it is the start, not at all if it is the end; the optimiser receives the smaller molecule\'s '
               '(translated) coordinates, its bond table (every entry squared = the squared distance of the bonded atoms, symmetric), its centre, '
               'the larger molecule\'s hydrogen-filtered coordinates, the step budget STEPS_FACTOR*len and the translation width 2*min bond; Z is '
               'written to the smaller molecule only; names and order unchanged; early return when the end molecule has one atom.  Step: from an '
               'arbitrary symbolic held configuration, one iteration of the real loop with symbolic draws: a translation or rotation proposal '
               'preserves all pairwise squared distances (the rotation matrix is the real rotation_matrix output, proved orthogonal on the path).')
BOUNDS = {'quick': {'sizes (start,end)': '(3,2) (2,3) (2,2) (3,3) (2,1) (3,1)', 'hydrogen masks': 'all with at least one heavy atom on the larger molecule (3-atom: 7)',
                    'restraints': 'none, one pair, two pairs', 'deformations': 'None, (0,), (0,1), (0,1,2)', 'step': '3-atom mobile molecule, 1 iteration per move type'},
          'thorough': {'sizes': 'plus (4,2) (2,4) (4,3)', 'step': '4-atom mobile molecule'}}
OUTSIDE = ['bit-identical repeatability for a fixed seed (a statement about the concrete PRNG and binary64; only the completeness of the random-draw stub is validated: stub-validation/*)', 'molecules of more than 4 atoms',
           'the full STEPS_FACTOR*n Monte-Carlo run (decomposed into the glue, the per-iteration invariant here, C07 and C09)']
STUBS = ['gaddlemaps._alignment.minimize_molecules -> recorder returning fresh symbolic coordinates (contract: same shape)',
         'Chi2Calculator -> uninterpreted energy in the step obligations', 'np.random.* -> symbolic draws']
ASSUMPTIONS = ['atoms at distinct positions', 'the larger molecule has at least one bond and one non-hydrogen atom', 'exact real arithmetic']
CASE_TIMEOUT = {'quick': 900, 'thorough': 3000}


def cases(tier):
    sizes = [(3, 2), (2, 3), (2, 2), (3, 3), (2, 1), (3, 1)] + ([(4, 2), (2, 4), (4, 3)] if tier == 'thorough' else [])
    cs = []
    for ns, ne in sizes:
        for ign in (True, False):
            cs.append({'name': 'glue/start%d-end%d/%s' % (ns, ne, 'ignoreH' if ign else 'keepH'), 'ns': ns, 'ne': ne, 'ign': ign})
    for ns, ne in ((2, 3), (3, 2), (3, 3)):
        cs.append({'name': 'realign/start%d-end%d' % (ns, ne), 'ns': ns, 'ne': ne})
    for kind in ('translation', 'rotation'):
        cs.append({'name': 'step/%s' % kind, 'move': kind, 'n': 3 if tier == 'quick' else 4})
    cs.append({'name': 'stub-validation/randomness-sources'})
    return cs


_RNG_NAMES = {'default_rng', 'RandomState', 'SeedSequence', 'PCG64', 'MT19937', 'Philox', 'SFC64', 'urandom', 'getrandbits', 'SystemRandom'}


def _randomness_sources(case):
    """Every np.random.* call is replaced by a symbolic draw, which stands for 'every seed'.  That covers the randomness of the
    package only if all of it comes from numpy's global stream: the sources of the package are scanned (AST) for private
    generators and other entropy sources; a hit is a candidate that the replay decides (two runs from one seed)."""
    import ast, os
    import gaddlemaps
    root = os.path.dirname(gaddlemaps.__file__)
    hits, nfiles = [], 0
    for dp, dn, fn in os.walk(root):
        for f in fn:
            if not f.endswith('.py'):
                continue
            nfiles += 1
            path = os.path.join(dp, f)
            try:
                tree = ast.parse(open(path, encoding='utf-8').read())
            except SyntaxError:
                continue
            for node in ast.walk(tree):
                if isinstance(node, ast.Import) and any(a.name.split('.')[0] in ('random', 'secrets') for a in node.names):
                    hits.append('%s:%d import %s' % (os.path.relpath(path, root), node.lineno, node.names[0].name))
                elif isinstance(node, ast.ImportFrom) and (node.module or '').split('.')[0] in ('random', 'secrets'):
                    hits.append('%s:%d from %s import ...' % (os.path.relpath(path, root), node.lineno, node.module))
                elif isinstance(node, ast.Attribute) and node.attr in _RNG_NAMES:
                    hits.append('%s:%d .%s' % (os.path.relpath(path, root), node.lineno, node.attr))
                elif isinstance(node, ast.Name) and node.id in _RNG_NAMES:
                    hits.append('%s:%d %s' % (os.path.relpath(path, root), node.lineno, node.id))
    rec = {'name': 'all randomness of the package comes from the global numpy stream (no private generator / other entropy source in %d source files)' % nfiles,
           'status': 'unsat' if not hits else 'sat', 'secs': 0}
    if hits:
        rec['witness'] = {'kind': 'repeat', 'sites': hits[:5]}
    return {'records': [rec, {'name': 'reachability-twin', 'status': 'twin', 'secs': 0}], 'paths': nfiles, 'queries': 0, 'solver_s': 0,
            'samples': [{'files': nfiles, 'hits': hits[:5]}], 'nontrivial': ['randomness-sources']}


def _glue(case):
    from symx.core import explore, SymReal, expr, Ctx, concretize_inputs
    from symx import npx
    from symx.mol import make_molecule
    npx.install()
    import gaddlemaps._alignment as al
    cap = 60000
    ns, ne, ign = case['ns'], case['ne'], case['ign']
    records, samples, nontrivial = [], [], []
    st = {'paths': 0, 'queries': 0, 'solver_s': 0.0}
    calls = []

    def recorder(mol1_positions, mol2_positions, mol2_com, sigma_scale, n_steps, restriction, mol2_bonds_info, displacement_module, sim_type):
        Z = np.array([[SymReal(Ctx.cur.freshvar('Z')) for _ in range(3)] for _ in range(len(mol2_positions))], dtype=object)
        calls.append(dict(mol1=mol1_positions, mol2=mol2_positions, com=mol2_com, sigma=sigma_scale, n_steps=n_steps, restr=list(restriction),
                          bonds=mol2_bonds_info, width=displacement_module, sim=sim_type, Z=Z))
        return Z
    al.minimize_molecules = recorder
    start_larger = ns >= ne
    nl = ns if start_larger else ne
    sv = [[z3.Real('s%d_%d' % (i, k)) for k in range(3)] for i in range(ns)]
    ev = [[z3.Real('e%d_%d' % (i, k)) for k in range(3)] for i in range(ne)]
    inputs = {'s%d_%d' % (i, k): sv[i][k] for i in range(ns) for k in range(3)}
    inputs.update({'e%d_%d' % (i, k): ev[i][k] for i in range(ne) for k in range(3)})
    Ctx.default_sample_inputs = inputs
    masks = [m for m in itertools.product((False, True), repeat=nl) if not all(m)]
    if nl == 3:
        masks = [m for m in masks]
    restr_sets = [None, [(0, 0)], [(ns - 1, 0), (0, ne - 1)]]
    deform_sets = [None, (0,), (0, 1), (0, 1, 2)] if ne > 1 and ns > 1 else [None, (0,)]
    combos = [(m, r, d) for m in masks for r in restr_sets for d in deform_sets]
    # keep the quick tier small: every mask with default options, every option with two masks
    combos = [c for c in combos if (c[1] is None and c[2] is None) or c[0] in (masks[0], masks[-1])]
    for mask, R, D in combos:
        tag = 'start %d / end %d atoms, H mask %s, restraints %s, deformations %s, ignore_hydrogens=%s' % (ns, ne, ''.join('H' if h else '-' for h in mask), R, D, ign)

        def run(ctx):
            del calls[:]
            for V, n in ((sv, ns), (ev, ne)):
                for i in range(n):
                    for j in range(i):
                        ctx.assume(z3.Or(*[V[i][k] != V[j][k] for k in range(3)]))

            def mk(name, n, V, prefix, hmask):
                atoms = [(('H%d' % a) if (hmask and hmask[a]) else ('%s%d' % (prefix, a)), name[:3], 1) for a in range(n)]
                return make_molecule(name, atoms, [(a, a + 1) for a in range(n - 1)], [[SymReal(v) for v in row] for row in V])
            start0 = mk('STA', ns, sv, 'C', mask if start_larger else None)
            end0 = mk('END', ne, ev, 'N', None if start_larger else mask)
            ali = al.Alignment(start0, end0)
            ali.align_molecules(restrictions=R, deformation_types=D, ignore_hydrogens=ign)
            return ali, start0, end0, list(calls)

        for ctx, res, exc in explore(run, max_paths=400):
            st['paths'] += 1
            if res is None:
                r, secs, m = ctx.reachable(cap)
                records.append({'name': tag + ': aborted path infeasible under the preconditions', 'status': 'unsat' if r == 'unsat' else ('unknown' if r == 'unknown' else 'sat'), 'secs': secs,
                                'witness': None if r != 'sat' else {'kind': 'glue', 'ns': ns, 'ne': ne, 'mask': list(mask), 'R': R, 'D': D, 'ign': ign, 'what': 'abort %r' % (exc,)}})
                continue
            ali, start0, end0, cl = res
            nontrivial.append(tag)
            problems, obligations = [], []
            T = lambda rows: [[expr(c) for c in row] for row in rows]
            s_terms, e_terms = T(start0.atoms_positions), T(end0.atoms_positions)
            ident = lambda A, B: len(A) == len(B) and all(z3.eq(z3.simplify(p), z3.simplify(q)) for ra, rb in zip(A, B) for p, q in zip(ra, rb))
            if not (ident(s_terms, [[sv[i][k] for k in range(3)] for i in range(ns)]) and ident(e_terms, [[ev[i][k] for k in range(3)] for i in range(ne)])):
                problems.append("the caller's Molecule objects were modified")
            shift = [sum(ev[i][k] for i in range(ne)) / ne - sum(sv[i][k] for i in range(ns)) / ns for k in range(3)]
            moved_start = [[sv[i][k] + shift[k] for k in range(3)] for i in range(ns)]
            S, E = T(ali.start.atoms_positions), T(ali.end.atoms_positions)
            if [a.name for a in ali.start] != [a.name for a in start0] or [a.name for a in ali.end] != [a.name for a in end0]:
                problems.append('atom order / names changed')
            if ne == 1:
                if cl:
                    problems.append('optimiser called although the end molecule has a single atom')
                obligations.append(('start translated onto the centre of the end molecule', z3.And(*[S[i][k] == moved_start[i][k] for i in range(ns) for k in range(3)])))
                if not ident(E, e_terms):
                    problems.append('end molecule modified')
            else:
                if len(cl) != 1:
                    problems.append('optimiser called %d times' % len(cl))
                else:
                    c = cl[0]
                    Z = T(c['Z'])
                    if start_larger:
                        obligations.append(('larger (start) molecule only translated by centre(end) - centre(start)', z3.And(*[S[i][k] == moved_start[i][k] for i in range(ns) for k in range(3)])))
                        if not ident(E, Z):
                            problems.append('optimiser result not written to the end (smaller) molecule')
                        fixed_rows, mobile_rows, fixed_mol, mobile_mol = moved_start, e_terms, ali.start, ali.end
                    else:
                        if not ident(E, e_terms):
                            problems.append('larger (end) molecule was modified')
                        if not ident(S, Z):
                            problems.append('optimiser result not written to the start (smaller) molecule')
                        fixed_rows, mobile_rows, fixed_mol, mobile_mol = e_terms, moved_start, ali.end, ali.start
                    hyd = [a.element == 'H' for a in fixed_mol]
                    keep = [i for i in range(len(fixed_rows)) if not (ign and hyd[i])]
                    m1 = T(c['mol1'])
                    if len(m1) != len(keep):
                        problems.append('fixed coordinates handed to the optimiser: %d rows, expected %d' % (len(m1), len(keep)))
                    else:
                        obligations.append(('optimiser sees the larger molecule\'s (hydrogen-filtered) coordinates', z3.And(*[m1[r][k] == fixed_rows[i][k] for r, i in enumerate(keep) for k in range(3)])))
                    m2 = T(c['mol2'])
                    obligations.append(('optimiser starts from the smaller molecule\'s coordinates', z3.And(*[m2[i][k] == mobile_rows[i][k] for i in range(len(mobile_rows)) for k in range(3)])))
                    nm = len(mobile_rows)
                    obligations.append(('centre handed over = geometric centre of the smaller molecule', z3.And(*[expr(c['com'][k]) == sum(mobile_rows[i][k] for i in range(nm)) / nm for k in range(3)])))
                    # bond table of the mobile molecule: symmetric, every length squared = squared distance
                    bt = c['bonds']
                    want_keys = {i for i in range(nm) if (i > 0 or i < nm - 1) and nm > 1}
                    if set(bt) != want_keys:
                        problems.append('bond table keys %s' % sorted(bt))
                    cl_b = []
                    for i, lst in bt.items():
                        if sorted(j for j, _ in lst) != sorted(j for j in (i - 1, i + 1) if 0 <= j < nm):
                            problems.append('bond table of atom %d lists %s' % (i, [j for j, _ in lst]))
                        for j, d in lst:
                            cl_b.append(z3.And(expr(d) >= 0, expr(d) * expr(d) == sum((mobile_rows[i][k] - mobile_rows[j][k]) ** 2 for k in range(3))))
                    obligations.append(('bond table = current bonded distances of the smaller molecule', z3.And(*cl_b) if cl_b else z3.BoolVal(True)))
                    if c['n_steps'] != al.Alignment.STEPS_FACTOR * nm or c['sigma'] != al.Alignment.SIGMA_SCALE:
                        problems.append('step budget %r / sigma %r' % (c['n_steps'], c['sigma']))
                    want_sim = D if D is not None else ((0,) if (ns == 1 or ne == 1) else (0, 1, 2))
                    if tuple(c['sim']) != tuple(want_sim):
                        problems.append('deformation types %r instead of %r' % (c['sim'], want_sim))
                    # translation width = 2 * shortest bond of the larger molecule
                    nf = len(fixed_rows)
                    blen2 = [sum((fixed_rows[i][k] - fixed_rows[i + 1][k]) ** 2 for k in range(3)) for i in range(nf - 1)]
                    w = expr(c['width'])
                    obligations.append(('translation width = 2 * shortest bond of the larger molecule',
                                        z3.And(w >= 0, z3.Or(*[w * w == 4 * b for b in blen2]), *[w * w <= 4 * b for b in blen2])))
            for nm_, claim in obligations:
                r, secs, mo = ctx.prove(claim, cap)
                rec = {'name': '%s: %s' % (tag, nm_), 'status': r, 'secs': secs}
                if r == 'sat':
                    rec['witness'] = {'kind': 'glue', 'ns': ns, 'ne': ne, 'mask': list(mask), 'R': R, 'D': D, 'ign': ign, 'what': nm_,
                                      'inputs': concretize_inputs(ctx, [z3.Not(claim)], inputs, mo)}
                records.append(rec)
            rec = {'name': '%s: caller\'s molecules untouched, result written to the smaller molecule only, names/order kept, option routing' % tag,
                   'status': 'unsat' if not problems else 'sat', 'secs': 0}
            if problems:
                rec['witness'] = {'kind': 'glue', 'ns': ns, 'ne': ne, 'mask': list(mask), 'R': R, 'D': D, 'ign': ign, 'what': '; '.join(problems)}
            records.append(rec)
            if len(samples) < 2:
                samples.append({'case': tag, 'path_condition': [str(p)[:80] for p in ctx.pc][:4]})
            st['queries'] += ctx.queries; st['solver_s'] += ctx.solver_time
    records.append({'name': 'reachability-twin', 'status': 'twin', 'secs': 0})
    return {'records': records, 'paths': st['paths'], 'queries': st['queries'], 'solver_s': st['solver_s'], 'samples': samples, 'nontrivial': nontrivial}


def _step(case):
    from symx.core import explore, SymReal, expr, Ctx, PathAbort, SymZeroDivision
    from symx import npx
    from symx.frames import norm_lemmas
    import gaddlemaps._backend as be
    cap = 60000
    n = case['n']
    kind = 0 if case['move'] == 'translation' else 1
    records, samples, nontrivial = [], [], []
    st = {'paths': 0, 'queries': 0, 'solver_s': 0.0}
    rnd = npx.RandomStub()
    npx.install(random=rnd, modules=['gaddlemaps._backend', 'gaddlemaps._auxilliary'])
    import symx.core as core
    core.FLOAT_FALLBACK = float('nan')

    class _Out:
        def write(self, s): pass
        def flush(self): pass

    class _Sys:
        stdout = _Out()
    be.sys = _Sys()
    evaluated = []
    rots = []

    class EnergyStub:
        def __init__(self, *a): pass
        def __call__(self, cfg):
            if len(evaluated) >= 2:
                raise PathAbort('one iteration is enough')
            e = Ctx.cur.freshvar('E'); Ctx.cur.assume(e > 0)
            evaluated.append(cfg)
            return SymReal(e)
    be.Chi2Calculator = EnergyStub
    real_rot = be.rotation_matrix

    def rotw(axis, theta):
        R = real_rot(axis, theta); rots.append(R); return R
    be.rotation_matrix = rotw
    hv = [[z3.Real('h%d_%d' % (i, k)) for k in range(3)] for i in range(n)]

    def run(ctx):
        del evaluated[:]; del rots[:]
        H = np.array([[SymReal(v) for v in row] for row in hv], dtype=object)
        try:
            be._minimize_molecules(None, H, np.array([SymReal(z3.Real('com%d' % k)) for k in range(3)], dtype=object), SymReal(z3.Real('sigma')), 1, [], {}, SymReal(z3.Real('width')), (kind,))
        except PathAbort as e:
            if isinstance(e, SymZeroDivision):
                raise
        return H, list(evaluated), list(rots)
    lem = None
    for ctx, res, exc in explore(run, max_paths=200):
        st['paths'] += 1
        if res is None:
            records.append({'name': 'path%d: degenerate random draw (zero rotation axis): outside the claim' % st['paths'], 'status': 'skipped', 'secs': 0})
            continue
        H, ev, rs = res
        if len(ev) < 2:
            continue
        nontrivial.append('path%d' % st['paths'])
        P = ev[1]
        d2 = lambda A, i, j: sum((expr(A[i][k]) - expr(A[j][k])) ** 2 for k in range(3))
        if kind == 0:
            claim = z3.And(*[d2(P, i, j) == d2(H, i, j) for i in range(n) for j in range(i)])
            r, secs, m = ctx.prove(claim, cap)
            records.append({'name': 'path%d: translation proposal preserves all %d pairwise distances of the held configuration' % (st['paths'], n * (n - 1) // 2), 'status': r, 'secs': secs,
                            'witness': None if r != 'sat' else {'kind': 'step', 'move': 'translation'}})
        else:
            R = rs[0]
            rows = [sum(expr(R[a][k]) * expr(R[b][k]) for k in range(3)) == (1 if a == b else 0) for a in range(3) for b in range(3)]
            okR = True
            for idx, cl in enumerate(rows):
                r, secs, m = ctx.prove_abstracted(cl, [[]], [], cap, drop_prefixes=('E!', 'choice!'))
                okR = okR and r == 'unsat'
            records.append({'name': 'path%d: the rotation matrix drawn by the loop is orthogonal (R R^T = I, 9 entries)' % st['paths'], 'status': 'unsat' if okR else 'unknown', 'secs': 0})
            if lem is None:
                lem = norm_lemmas(ctx, cap, records, 'path%d' % st['paths']) or False
            from symx.frames import fresh_frame
            F = fresh_frame('R')
            passes = [[(expr(R[a][k]), F[a][k]) for a in range(3) for k in range(3)]]
            for i in range(n):
                for j in range(i):
                    w = [expr(H[i][k]) - expr(H[j][k]) for k in range(3)]
                    claim = d2(P, i, j) == sum(x * x for x in w)
                    if okR and lem:
                        r, secs, m = ctx.prove_abstracted(claim, passes, [lem[0](F, w)], cap, drop_prefixes=('sqrt!',))
                    else:
                        r, secs, m = ctx.prove(claim, cap)
                    records.append({'name': 'path%d: rotation proposal preserves the distance between atoms %d and %d' % (st['paths'], j, i), 'status': r, 'secs': secs,
                                    'witness': None if r != 'sat' else {'kind': 'step', 'move': 'rotation'}})
            com = z3.And(*[sum(expr(P[i][k]) for i in range(n)) == sum(expr(H[i][k]) for i in range(n)) for k in range(3)])
        if len(samples) < 2:
            samples.append({'move': case['move'], 'proposal[0][0]': str(z3.simplify(expr(P[0][0])))[:200]})
        st['queries'] += ctx.queries; st['solver_s'] += ctx.solver_time
    records.append({'name': 'reachability-twin', 'status': 'twin' if nontrivial else 'twin-fail', 'secs': 0})
    return {'records': records, 'paths': st['paths'], 'queries': st['queries'], 'solver_s': st['solver_s'], 'samples': samples, 'nontrivial': nontrivial}


def _realign(case):
    """history: align, assign another conformation of the same species to start and to end, align again - the second
    optimisation must be set up from the new conformations only (no table or coordinates kept from the first one)"""
    from symx.core import explore, SymReal, expr, Ctx
    from symx import npx
    from symx.mol import make_molecule
    npx.install()
    import gaddlemaps._alignment as al
    cap = 60000
    ns, ne = case['ns'], case['ne']
    records, samples, nontrivial = [], [], []
    st = {'paths': 0, 'queries': 0, 'solver_s': 0.0}
    calls = []

    def recorder(mol1_positions, mol2_positions, mol2_com, sigma_scale, n_steps, restriction, mol2_bonds_info, displacement_module, sim_type):
        Z = np.array([[SymReal(Ctx.cur.freshvar('Z')) for _ in range(3)] for _ in range(len(mol2_positions))], dtype=object)
        calls.append(dict(mol1=mol1_positions, mol2=mol2_positions, com=mol2_com, bonds=mol2_bonds_info, width=displacement_module, Z=Z))
        return Z
    al.minimize_molecules = recorder
    V = {nm: [[z3.Real('%s%d_%d' % (nm, i, k)) for k in range(3)] for i in range(n)] for nm, n in (('s', ns), ('e', ne), ('t', ns), ('f', ne))}
    inputs = {'%s%d_%d' % (nm, i, k): V[nm][i][k] for nm in V for i in range(len(V[nm])) for k in range(3)}
    Ctx.default_sample_inputs = inputs
    start_larger = ns >= ne

    def run(ctx):
        del calls[:]
        for nm in V:
            rows = V[nm]
            for i in range(len(rows)):
                for j in range(i):
                    ctx.assume(z3.Or(*[rows[i][k] != rows[j][k] for k in range(3)]))
        mk = lambda name, rows, prefix: make_molecule(name, [('%s%d' % (prefix, a), name[:3], 1) for a in range(len(rows))],
                                                      [(a, a + 1) for a in range(len(rows) - 1)], [[SymReal(v) for v in row] for row in rows])
        ali = al.Alignment(mk('STA', V['s'], 'C'), mk('END', V['e'], 'N'))
        ali.align_molecules(deformation_types=(0, 1, 2))
        ali.start = mk('STA', V['t'], 'C')
        ali.end = mk('END', V['f'], 'N')
        ali.align_molecules(deformation_types=(0, 1, 2))
        return ali, list(calls)
    for ctx, res, exc in explore(run, max_paths=600):
        st['paths'] += 1
        if res is None:
            r, secs, m = ctx.reachable(cap)
            records.append({'name': 'path%d aborted (%r): infeasible under the preconditions' % (st['paths'], exc), 'status': 'unsat' if r == 'unsat' else ('unknown' if r == 'unknown' else 'sat'), 'secs': secs,
                            'witness': None if r != 'sat' else {'kind': 'realign', 'ns': ns, 'ne': ne, 'what': 'abort'}})
            continue
        ali, cl = res
        nontrivial.append('path%d' % st['paths'])
        if len(cl) != 2:
            records.append({'name': 'path%d: optimiser called once per alignment (%d calls)' % (st['paths'], len(cl)), 'status': 'sat', 'secs': 0,
                            'witness': {'kind': 'realign', 'ns': ns, 'ne': ne, 'what': 'calls'}})
            continue
        c = cl[1]
        shift = [sum(V['f'][i][k] for i in range(ne)) / ne - sum(V['t'][i][k] for i in range(ns)) / ns for k in range(3)]
        moved = [[V['t'][i][k] + shift[k] for k in range(3)] for i in range(ns)]
        newend = [[V['f'][i][k] for k in range(3)] for i in range(ne)]
        fixed_rows, mobile_rows = (moved, newend) if start_larger else (newend, moved)
        T = lambda rows: [[expr(x) for x in row] for row in rows]
        m1, m2 = T(c['mol1']), T(c['mol2'])
        obligations = [('second alignment starts from the newly assigned mobile conformation', z3.And(*[m2[i][k] == mobile_rows[i][k] for i in range(len(mobile_rows)) for k in range(3)])),
                       ('second alignment sees the newly assigned fixed conformation', z3.And(*[m1[i][k] == fixed_rows[i][k] for i in range(len(fixed_rows)) for k in range(3)]))]
        cl_b = []
        for i, lst in c['bonds'].items():
            for j, d in lst:
                cl_b.append(z3.And(expr(d) >= 0, expr(d) * expr(d) == sum((mobile_rows[i][k] - mobile_rows[j][k]) ** 2 for k in range(3))))
        obligations.append(('bond table of the second alignment = bonded distances of the newly assigned conformation', z3.And(*cl_b)))
        nf = len(fixed_rows)
        blen2 = [sum((fixed_rows[i][k] - fixed_rows[i + 1][k]) ** 2 for k in range(3)) for i in range(nf - 1)]
        w = expr(c['width'])
        obligations.append(('translation width of the second alignment = 2 * shortest bond of the new fixed conformation',
                            z3.And(w >= 0, z3.Or(*[w * w == 4 * b for b in blen2]), *[w * w <= 4 * b for b in blen2])))
        for nm_, claim in obligations:
            r, secs, mo = ctx.prove(claim, cap)
            rec = {'name': 'path%d: %s' % (st['paths'], nm_), 'status': r, 'secs': secs}
            if r == 'sat':
                rec['witness'] = {'kind': 'realign', 'ns': ns, 'ne': ne, 'what': nm_}
            records.append(rec)
        if len(samples) < 2:
            samples.append({'history': 'align, start := other conformation, end := other conformation, align', 'sizes': [ns, ne]})
        st['queries'] += ctx.queries; st['solver_s'] += ctx.solver_time
    records.append({'name': 'reachability-twin', 'status': 'twin', 'secs': 0})
    return {'records': records, 'paths': st['paths'], 'queries': st['queries'], 'solver_s': st['solver_s'], 'samples': samples, 'nontrivial': nontrivial}


def run_case(case):
    if case['name'].startswith('stub-validation'):
        return _randomness_sources(case)
    if case['name'].startswith('realign'):
        return _realign(case)
    return _glue(case) if case['name'].startswith('glue') else _step(case)


def replay(w):
    """Concrete: real Alignment with a recording optimiser (glue) / one real loop iteration (step)."""
    from symx.core import fval
    from symx.mol import make_molecule
    import gaddlemaps._alignment as al
    if w['kind'] == 'repeat':
        # two runs of the real alignment from the same seed must coincide (the symbolic draws stand for the seeded stream only)
        import io, contextlib, random as _random
        big = [(0.00, 0.00, 0.00), (0.15, 0.02, 0.00), (0.29, -0.03, 0.04), (0.44, 0.01, 0.02), (0.58, 0.06, -0.03), (0.71, 0.00, 0.01), (0.30, 0.12, 0.10)]
        star = [(1.00, 1.00, 1.00), (1.28, 1.05, 0.97), (0.90, 1.27, 1.04), (0.93, 0.85, 1.25)]
        mkb = lambda: make_molecule('BIG', [('C%d' % a, 'BIG', 1) for a in range(7)], [(0, 1), (1, 2), (2, 3), (3, 4), (4, 5), (2, 6)], np.array(big))
        mks = lambda: make_molecule('STA', [('B%d' % a, 'STA', 1) for a in range(4)], [(0, 1), (0, 2), (0, 3)], np.array(star))

        def once(seed, types, swap):
            a, b = (mks(), mkb()) if swap else (mkb(), mks())
            ali = al.Alignment(start=a, end=b)
            ali.STEPS_FACTOR = 40
            np.random.seed(seed); _random.seed(seed)
            with contextlib.redirect_stdout(io.StringIO()):
                ali.align_molecules(restrictions=[], deformation_types=types, ignore_hydrogens=False)
            return np.array(ali.start.atoms_positions, dtype=float), np.array(ali.end.atoms_positions, dtype=float)
        worst = 0.0
        for swap in (False, True):
            for types in ((0, 1, 2), (2,), (0, 1)):
                for seed in (0, 1):
                    r1, r2 = once(seed, types, swap), once(seed, types, swap)
                    worst = max(worst, max(np.abs(x - y).max() for x, y in zip(r1, r2)))
        return {'reproduced': worst > 0, 'what': 'alignment repeated from the same seed differs by %.3g nm (randomness outside the seeded numpy stream: %s)' % (worst, '; '.join(w.get('sites', []))[:200]),
                'detail': {}}
    if w['kind'] == 'step':
        from gaddlemaps import rotation_matrix
        rs = np.random.RandomState(5)
        X = rs.uniform(-1, 1, (4, 3))
        import gaddlemaps._backend as be
        seen = []

        class E:
            def __init__(self, *a): pass
            def __call__(self, cfg):
                seen.append(np.array(cfg, dtype=float).copy()); return 1.0 + len(seen)
        saved = be.Chi2Calculator
        be.Chi2Calculator = E
        import io, contextlib
        try:
            with contextlib.redirect_stdout(io.StringIO()):
                be._minimize_molecules(None, X.copy(), X.mean(axis=0), 0.5, 1, [], {}, 0.3, (0,) if w['move'] == 'translation' else (1,))
        finally:
            be.Chi2Calculator = saved
        D = lambda A: np.array([[np.linalg.norm(A[i] - A[j]) for j in range(len(A))] for i in range(len(A))])
        bad = len(seen) < 2 or np.abs(D(seen[1]) - D(seen[0])).max() > 1e-9
        return {'reproduced': bool(bad), 'what': 'Monte-Carlo %s proposal changes interatomic distances' % w['move'], 'detail': {}}
    if w['kind'] == 'realign':
        ns, ne = w['ns'], w['ne']
        rs = np.random.RandomState(13)
        mk = lambda name, n, prefix, scale: make_molecule(name, [('%s%d' % (prefix, a), name[:3], 1) for a in range(n)], [(a, a + 1) for a in range(n - 1)],
                                                          rs.uniform(-2, 2, (n, 3)) * scale)
        calls = []

        def recorder(m1, m2, com, sigma, n_steps, restr, bonds, width, sim):
            calls.append(dict(mol1=np.array(m1, dtype=float), mol2=np.array(m2, dtype=float), bonds=bonds, width=width))
            return np.array(m2, dtype=float) + 0.05
        saved = al.minimize_molecules
        al.minimize_molecules = recorder
        bad = []
        try:
            ali = al.Alignment(mk('STA', ns, 'C', 1.0), mk('END', ne, 'N', 1.0))
            ali.align_molecules(deformation_types=(0, 1, 2))
            s2, e2 = mk('STA', ns, 'C', 2.5), mk('END', ne, 'N', 0.4)
            ali.start = s2; ali.end = e2
            ali.align_molecules(deformation_types=(0, 1, 2))
        finally:
            al.minimize_molecules = saved
        if len(calls) != 2:
            bad.append('%d optimiser calls' % len(calls))
        else:
            c = calls[1]
            S2 = s2.atoms_positions + (e2.atoms_positions.mean(axis=0) - s2.atoms_positions.mean(axis=0))
            fixed, mobile = (S2, e2.atoms_positions) if ns >= ne else (e2.atoms_positions, S2)
            if np.abs(c['mol2'] - mobile).max() > 1e-9 or np.abs(c['mol1'] - fixed).max() > 1e-9:
                bad.append('second alignment not set up from the newly assigned conformations')
            for i, lst in c['bonds'].items():
                for j, d in lst:
                    if abs(d - np.linalg.norm(mobile[i] - mobile[j])) > 1e-9:
                        bad.append('bond table of the second alignment holds lengths of the first conformation')
            if abs(c['width'] - 2 * min(np.linalg.norm(fixed[i] - fixed[i + 1]) for i in range(len(fixed) - 1))) > 1e-9:
                bad.append('translation width of the second alignment not taken from the new fixed conformation')
        return {'reproduced': bool(bad), 'what': 'align, re-assign start/end, align again: ' + '; '.join(sorted(set(bad))), 'detail': {}}
    ns, ne, mask, R, D, ign = w['ns'], w['ne'], w['mask'], w['R'], w['D'], w['ign']
    v = {k: fval(x) for k, x in (w.get('inputs') or {}).items()}
    rs = np.random.RandomState(11)
    Sx = np.array([[v.get('s%d_%d' % (i, k), rs.uniform(-2, 2)) for k in range(3)] for i in range(ns)])
    Ex = np.array([[v.get('e%d_%d' % (i, k), rs.uniform(-2, 2) + 5) for k in range(3)] for i in range(ne)])
    start_larger = ns >= ne

    def mk(name, n, X, prefix, hmask):
        atoms = [(('H%d' % a) if (hmask and hmask[a]) else ('%s%d' % (prefix, a)), name[:3], 1) for a in range(n)]
        return make_molecule(name, atoms, [(a, a + 1) for a in range(n - 1)], X)
    start0, end0 = mk('STA', ns, Sx, 'C', mask if start_larger else None), mk('END', ne, Ex, 'N', None if start_larger else mask)
    calls = []

    def recorder(m1, m2, com, sigma, n_steps, restr, bonds, width, sim):
        Z = np.array(m2, dtype=float) + 0.123
        calls.append(dict(mol1=np.array(m1, dtype=float), mol2=np.array(m2, dtype=float), com=com, restr=list(restr), bonds=bonds, width=width, sim=sim, n_steps=n_steps, Z=Z))
        return Z
    saved = al.minimize_molecules
    al.minimize_molecules = recorder
    bad = []
    try:
        ali = al.Alignment(start0, end0)
        ali.align_molecules(restrictions=[tuple(p) for p in R] if R else R, deformation_types=tuple(D) if D else D, ignore_hydrogens=ign)
    finally:
        al.minimize_molecules = saved
    if np.abs(start0.atoms_positions - Sx).max() > 0 or np.abs(end0.atoms_positions - Ex).max() > 0:
        bad.append("caller's molecules modified")
    moved = Sx + (Ex.mean(axis=0) - Sx.mean(axis=0))
    if ne == 1:
        if calls: bad.append('optimiser called for a one-atom end molecule')
        if np.abs(ali.start.atoms_positions - moved).max() > 1e-9: bad.append('start not translated onto the end')
    elif len(calls) != 1:
        bad.append('optimiser called %d times' % len(calls))
    else:
        c = calls[0]
        fixed, mobile = (moved, Ex) if start_larger else (Ex, moved)
        fm = ali.start if start_larger else ali.end
        keep = [i for i, a in enumerate(fm) if not (ign and a.element == 'H')]
        if c['mol1'].shape != fixed[keep].shape or np.abs(c['mol1'] - fixed[keep]).max() > 1e-9: bad.append('fixed coordinates handed to the optimiser are wrong')
        if np.abs(c['mol2'] - mobile).max() > 1e-9: bad.append('mobile coordinates handed to the optimiser are wrong')
        big = ali.start if start_larger else ali.end
        small = ali.end if start_larger else ali.start
        if np.abs(big.atoms_positions - fixed).max() > 1e-9: bad.append('larger molecule not (only) translated as specified')
        if np.abs(small.atoms_positions - c['Z']).max() > 0: bad.append('optimiser result not written to the smaller molecule')
        if abs(c['width'] - 2 * min(np.linalg.norm(fixed[i] - fixed[i + 1]) for i in range(len(fixed) - 1))) > 1e-9: bad.append('translation width is not twice the shortest bond')
        for i, lst in c['bonds'].items():
            for j, d in lst:
                if abs(d - np.linalg.norm(mobile[i] - mobile[j])) > 1e-9: bad.append('bond table entry wrong')
        want_sim = tuple(D) if D else ((0,) if (ns == 1 or ne == 1) else (0, 1, 2))
        if tuple(c['sim']) != want_sim: bad.append('deformation types %r' % (c['sim'],))
        if c['n_steps'] != al.Alignment.STEPS_FACTOR * len(mobile): bad.append('step budget')
    return {'reproduced': bool(bad), 'what': 'align_molecules (start %d, end %d atoms): %s' % (ns, ne, '; '.join(sorted(set(bad)))), 'detail': {}}
