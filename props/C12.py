"""C12 - the coordinate-file view tiles the file into residues with stable random access.
Real SystemGro on top of the real GroFile reading an in-memory file written by the real writer; the access index,
slice bounds and the stale read cursor are symbolic integers."""
import itertools
import z3
from symx.core import twin_record as core_twin

ID = 'C12'
FUNCTIONS = ['gaddlemaps.components._system:SystemGro.__init__', 'gaddlemaps.components._system:SystemGro._parse_gro',
             'gaddlemaps.components._system:SystemGro._add_residue_init', 'gaddlemaps.components._system:SystemGro._pk_ammount_ordered_gen',
             'gaddlemaps.components._system:SystemGro._molecules_ordered_all_gen', 'gaddlemaps.components._system:SystemGro.__getitem__',
             'gaddlemaps.components._system:SystemGro.__iter__', 'gaddlemaps.components._system:SystemGro.__len__',
             'gaddlemaps.parsers:GroFile.seek_atom', 'gaddlemaps.parsers:GroFile.readline', 'gaddlemaps.parsers:GroFile.parse_atomline']
EXPLANATION = ('Per residue layout within the bound (sizes, kinds, repeated / alternating kinds, equal names with different sizes, with '
               'and without velocities) the file is produced by the real writer and loaded by the real SystemGro/GroFile from an '
               'in-memory file.  One inductive access step: the shared read cursor is first moved to an arbitrary atom (symbolic integer '
               'c in [0, natoms], what any earlier access could have left), then residue k is fetched for a symbolic integer k in '
               '[-len, len) and compared with the k-th residue of an independent parse of the written records; the same for a symbolic '
               'slice [a:b] and for full iteration.  The solver enumerates the feasible values of the symbolic integers (path = one '
               'value assignment) and proves that the explored paths exhaust the ranges; tiling, residue boundaries, counts, box and title '
               'are checked on the loaded object.  The byte-offset arithmetic of seek_atom is decided for all integers in C13 (kernel/offsets).')
BOUNDS = {'quick': {'layouts': 'all sequences of 1..4 residues over 4 residue kinds (A:1 atom, A:2 atoms (same name, other size), B:2, C:3) with fresh residue numbers, '
                               'plus repeated-number variants; velocities on/off for length <= 2', 'cursor': 'every atom position (symbolic)', 'index': 'every k in [-len, len) (symbolic)',
                    'slices': 'every 0 <= a <= b <= len (symbolic); for the 24 layouts of 3 residues of pairwise different kinds also every [a:b:step] with a, b in [-len-1, len+1], step in {-3,-2,-1,2,3}'},
          'thorough': {'layouts': 'all sequences of 1..5 residues over the 4 kinds; 6 residues alternating', 'slices': 'with negative bounds and steps 1, 2; general [a:b:step] for layouts of <= 4 residues'}}
OUTSIDE = ['files with hundreds of residues and access sequences of length 200 (covered through the inductive step: any cursor state + one access)',
           'coordinates are concrete decimal numbers (they are text in the file)']
STUBS = ['file object -> in-memory text file (GroFile officially accepts an opened file)']
ASSUMPTIONS = ['the cursor states reachable by earlier accesses are exactly "positioned at the beginning of some atom line or of the box line" (every access seeks before reading)']
CASE_TIMEOUT = {'quick': 900, 'thorough': 3000}

KINDS = {'a': ('A', 1), 'A': ('A', 2), 'B': ('B', 2), 'C': ('C', 3)}      # 'a' and 'A' share the residue name and 'a' is an atom-name prefix of 'A'


def _layout_records(layout, vel=False, renumber=True):
    recs, atomid = [], 1
    samenum = layout.startswith('=')          # '=...' : consecutive residues share the residue number when their names differ
    layout = layout.lstrip('=')
    num = 1
    for ri, k in enumerate(layout):
        name, size = KINDS[k]
        for j in range(size):
            if samenum:
                if ri > 0 and j == 0 and KINDS[layout[ri - 1]][0] == name:
                    num += 1          # same name as the previous residue: a new number is the only separator
                rid = num
            else:
                rid = ri + 1
            r = [rid, name, '%s%d' % (name, j + 1), atomid, round(0.1 * atomid, 3), round(-0.2 * ri, 3), round(1.0 + 0.01 * j, 3)]
            if vel:
                # one atom in three is exactly at rest (a frozen group): its record still carries velocities
                r += [0.0, 0.0, 0.0] if atomid % 3 == 0 else [0.1, 0.2, round(0.001 * atomid, 4)]
            recs.append(r)
            atomid += 1
    return recs


def cases(tier):
    cs = []
    maxlen = 4 if tier == 'quick' else 5
    layouts = [''.join(p) for l in range(1, maxlen + 1) for p in itertools.product('aABC', repeat=l)]
    # consecutive residues of the same kind AND the same number would merge into one residue: numbers are always fresh
    chunk = 20
    for i in range(0, len(layouts), chunk):
        cs.append({'name': 'layouts/%d-%d' % (i, min(len(layouts), i + chunk) - 1), 'layouts': layouts[i:i + chunk], 'vel': False})
    cs.append({'name': 'layouts/velocities', 'layouts': [l for l in layouts if len(l) <= 2], 'vel': True})
    cs.append({'name': 'layouts/shared-residue-numbers', 'layouts': ['=' + l for l in layouts if 2 <= len(l) <= 3], 'vel': False})
    if tier == 'thorough':
        cs.append({'name': 'layouts/alternating6', 'layouts': ['ABABAB', 'aAaAaA', 'CCCCCC', 'ABCABC', 'aaAAaa'], 'vel': False})
    return cs


def run_case(case):
    from symx.core import explore, SymInt, Ctx
    from symx.files import MemFile, write_gro_text
    from gaddlemaps.components import SystemGro
    import numpy as np
    cap = 60000
    records, samples, nontrivial = [], [], []
    st = {'paths': 0, 'queries': 0, 'solver_s': 0.0}
    thorough = case['tier'] == 'thorough'

    def res_tuple(res):
        out = []
        for a in res:
            t = (a.resid, a.resname, a.name, a.atomid) + tuple(round(float(x), 6) for x in a.position)
            if a.velocity is not None:
                t += tuple(round(float(x), 6) for x in a.velocity)
            out.append(t)
        return out

    for layout_spec in case['layouts']:
        recs = _layout_records(layout_spec, case['vel'])
        layout = layout_spec.lstrip('=')
        text = write_gro_text(recs, comment='layout ' + layout, box=(3.0, 4.0, 5.0))
        # independent expectation from the written records
        expected, start = [], 0
        for k in layout:
            size = KINDS[k][1]
            expected.append([tuple(r[:4]) + tuple(round(float(x), 6) for x in r[4:]) for r in recs[start:start + size]])
            start += size
        nres, nat = len(layout), len(recs)
        try:
            sg = SystemGro(MemFile(text, 'layout.gro'))
            ok = (len(sg) == nres and sg.n_atoms == nat and [res_tuple(r) for r in sg] == expected and
                  sg.comment_line.strip() == 'layout ' + layout and np.allclose(sg.box_matrix, np.diag([3.0, 4.0, 5.0])))
        except Exception as e:           # a failure of the real code on a well-formed file is a finding
            ok = False
            sg = None
        rec = {'name': '%s: iteration tiles the file into the expected residues; counts, box and title agree' % layout,
               'status': 'unsat' if ok else 'sat', 'secs': 0}
        if not ok:
            rec['witness'] = {'kind': 'access', 'layout': layout_spec, 'vel': case['vel'], 'cursor': 0, 'op': 'iter'}
        records.append(rec)
        if sg is None:
            continue
        cv, kv, av, bv, sv = z3.Int('cursor'), z3.Int('k'), z3.Int('a'), z3.Int('b'), z3.Int('step')
        STEPS = [-3, -2, -1, 2, 3]

        def run(ctx, mode):
            if mode == 'slice3':
                # general slices [a:b:step]: bounds anywhere in [-len-1, len+1], steps -3, -2, -1, 2, 3 (stale cursor at atom 0)
                ctx.assume(cv == 0)
            else:
                ctx.assume(z3.And(cv >= 0, cv <= nat))
            c = SymInt(cv, 0, nat).concretize()
            # history before the access under test: an indexed fetch, a partial iteration, then an arbitrary stale cursor
            try:
                pre = c % nres
                sg[pre]
                it = iter(sg)
                for _ in range(c % (nres + 1)):
                    next(it)
                del it
            except Exception:
                pass
            sg._open_fgro.seek_atom(c)                      # arbitrary stale cursor left by an earlier access
            if mode == 'index':
                ctx.assume(z3.And(kv >= -nres, kv < nres))
                k = SymInt(kv, -nres, nres - 1).concretize()
                try:
                    return c, k, res_tuple(sg[k])
                except Exception as e:
                    return c, k, 'raised %s' % type(e).__name__
            if mode == 'slice3':
                ctx.assume(z3.And(av >= -nres - 1, av <= nres + 1, bv >= -nres - 1, bv <= nres + 1, sv >= 0, sv < len(STEPS)))
                a = SymInt(av, -nres - 1, nres + 1).concretize()
                b = SymInt(bv, -nres - 1, nres + 1).concretize()
                stp = STEPS[SymInt(sv, 0, len(STEPS) - 1).concretize()]
                try:
                    return c, (a, b, stp), [res_tuple(r) for r in sg[a:b:stp]]
                except Exception as e:
                    return c, (a, b, stp), 'raised %s' % type(e).__name__
            if mode == 'oob':
                ctx.assume(z3.Or(kv == nres, kv == -nres - 1))
                k = SymInt(kv, -nres - 1, nres).concretize()
                try:
                    sg[k]
                    return c, k, 'no error'
                except IndexError:
                    return c, k, 'IndexError'
            ctx.assume(z3.And(av >= 0, av <= bv, bv <= nres))
            a = SymInt(av, 0, nres).concretize()
            b = SymInt(bv, 0, nres).concretize()
            try:
                return c, (a, b), [res_tuple(r) for r in sg[a:b]]
            except Exception as e:
                return c, (a, b), 'raised %s' % type(e).__name__

        for mode in ('index', 'slice', 'oob') + (('slice3',) if ((nres <= 4 and len(set(layout)) >= min(nres, 3)) if thorough else (nres == 3 and len(set(layout)) == 3 and not layout_spec.startswith('='))) else ()):
            cover = []
            bad = None
            for ctx, res, exc in explore(lambda ctx: run(ctx, mode), max_paths=20000):
                st['paths'] += 1
                cover.append(z3.And(*ctx.pc) if ctx.pc else z3.BoolVal(True))
                if res is None:
                    bad = bad or ('abort', repr(exc)); continue
                c, k, got = res
                if mode == 'index':
                    good = got == expected[k]
                elif mode == 'oob':
                    good = got == 'IndexError'
                elif mode == 'slice3':
                    good = got == expected[k[0]:k[1]:k[2]]
                else:
                    good = got == expected[k[0]:k[1]]
                if not good and bad is None:
                    bad = (c, k)
                st['queries'] += ctx.queries; st['solver_s'] += ctx.solver_time
            nontrivial.append('%s/%s' % (layout, mode))
            what = {'index': 'residue k (any k in [-len, len)) after any stale cursor = k-th iterated residue',
                    'slice': 'slice [a:b] after any stale cursor = iterated residues a..b-1',
                    'slice3': 'slice [a:b:step], a, b in [-len-1, len+1], step in {-3, -2, -1, 2, 3}, = the same slice of the iterated residues',
                    'oob': 'index len or -len-1 raises IndexError'}[mode]
            rec = {'name': '%s: %s (%d paths)' % (layout, what, len(cover)), 'status': 'unsat' if bad is None else 'sat', 'secs': 0}
            if bad is not None and bad[0] != 'abort':
                rec['witness'] = {'kind': 'access', 'layout': layout_spec, 'vel': case['vel'], 'cursor': bad[0], 'op': mode, 'arg': list(bad[1]) if isinstance(bad[1], tuple) else bad[1]}
            elif bad is not None:
                rec['status'] = 'error'; rec['detail'] = bad[1]
            records.append(rec)
            # coverage of the symbolic ranges by the explored paths
            s = z3.Solver(); s.set('timeout', cap)
            rng = [cv >= 0, cv <= nat] + ([kv >= -nres, kv < nres] if mode == 'index' else
                                          [z3.Or(kv == nres, kv == -nres - 1)] if mode == 'oob' else
                                          [av >= -nres - 1, av <= nres + 1, bv >= -nres - 1, bv <= nres + 1, sv >= 0, sv < len(STEPS)] if mode == 'slice3' else
                                          [av >= 0, av <= bv, bv <= nres])
            if mode == 'slice3':
                rng[0:2] = [cv == 0]
            s.add(*rng); s.add(z3.Not(z3.Or(*cover)))
            r = str(s.check())
            records.append({'name': '%s: the explored paths exhaust the symbolic %s/cursor ranges' % (layout, mode),
                            'status': 'unsat' if r == 'unsat' else ('unknown' if r == 'unknown' else 'sat'), 'secs': 0})
        if thorough:
            for (a, b, step) in [(-2, None, 1), (None, -1, 1), (0, None, 2), (1, None, 2), (-3, -1, 1)]:
                got = [res_tuple(r) for r in sg[slice(a, b, step)]]
                good = got == expected[slice(a, b, step)]
                records.append({'name': '%s: slice [%s:%s:%s]' % (layout, a, b, step), 'status': 'unsat' if good else 'sat', 'secs': 0,
                                'witness': None if good else {'kind': 'access', 'layout': layout, 'vel': case['vel'], 'cursor': 0, 'op': 'slice3', 'arg': [a, b, step]}})
        if len(samples) < 3:
            samples.append({'layout': layout, 'residues': nres, 'atoms': nat})
        del sg
    records.append({'name': 'reachability-twin', 'status': 'twin', 'secs': 0})
    return {'records': records, 'paths': st['paths'], 'queries': st['queries'], 'solver_s': st['solver_s'], 'samples': samples, 'nontrivial': nontrivial}


def replay(w):
    """Concrete, through a real file on disk."""
    import os
    import tempfile
    from symx.files import write_gro_text
    from gaddlemaps.components import SystemGro
    layout_spec = w['layout']
    recs = _layout_records(layout_spec, w['vel'])
    layout = layout_spec.lstrip('=')
    text = write_gro_text(recs, comment='layout ' + layout, box=(3.0, 4.0, 5.0))
    d = tempfile.mkdtemp(prefix='c12-')
    p = os.path.join(d, 'layout.gro')
    open(p, 'w').write(text)
    try:
        try:
            sg = SystemGro(p)
        except Exception as e:
            return {'reproduced': True, 'what': 'SystemGro (layout %s): loading raised %s: %s' % (layout, type(e).__name__, str(e)[:80]), 'detail': {}}
        expected, start = [], 0
        for k in layout:
            size = KINDS[k][1]
            expected.append([tuple(r[:4]) + ((tuple(round(float(x), 6) for x in r[7:10]),) if w['vel'] else ()) for r in recs[start:start + size]])
            start += size
        ids = lambda res: [(a.resid, a.resname, a.name, a.atomid) + ((tuple(round(float(x), 6) for x in a.velocity),) if w['vel'] else ()) + ((None,) if (w['vel'] and a.velocity is None) else ()) for a in res]
        bad = []
        try:
            if [ids(r) for r in sg] != expected or len(sg) != len(layout):
                bad.append('iteration does not tile the file into the written residues')
        except Exception as e:
            bad.append('iteration raised %s' % type(e).__name__)
        c = w.get('cursor', 0)
        try:
            sg[c % len(layout)]
            it = iter(sg)
            for _ in range(c % (len(layout) + 1)):
                next(it)
            del it
        except Exception:
            pass
        sg._open_fgro.seek_atom(c)
        op, arg = w.get('op'), w.get('arg')
        try:
            if op == 'index' and ids(sg[arg]) != expected[arg]:
                bad.append('residue %d after a read positioned at atom %d differs from the iterated one' % (arg, w['cursor']))
            if op == 'slice' and [ids(r) for r in sg[arg[0]:arg[1]]] != expected[arg[0]:arg[1]]:
                bad.append('slice %s differs from the iterated residues' % (arg,))
            if op == 'slice3' and [ids(r) for r in sg[slice(*arg)]] != expected[slice(*arg)]:
                bad.append('slice %s differs from the iterated residues' % (arg,))
            if op == 'oob':
                try:
                    sg[arg]; bad.append('index %d out of range accepted' % arg)
                except IndexError:
                    pass
        except Exception as e:
            bad.append('%s raised %s' % (op, type(e).__name__))
        del sg
        return {'reproduced': bool(bad), 'what': 'SystemGro (layout %s): %s' % (layout, '; '.join(bad)), 'detail': {}}
    finally:
        os.remove(p); os.rmdir(d)
