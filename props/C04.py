"""C04 - applying an exchange map is pure, history-independent and species-checked.
Real ExchangeMap / Molecule on symbolic coordinates; one inductive step from arbitrary stale frame state plus
explicit short histories with symbolic values."""
import itertools
import numpy as np
import z3
from symx.core import twin_record as core_twin

ID = 'C04'
FUNCTIONS = ['gaddlemaps._exchage_map:ExchangeMap.__call__', 'gaddlemaps._exchage_map:ExchangeMap._calculate_refsystems',
             'gaddlemaps._exchage_map:ExchangeMap._calculate_refsystems_general', 'gaddlemaps._exchage_map:ExchangeMap._restore_molecule',
             'gaddlemaps._exchage_map:ExchangeMap._restore_point', 'gaddlemaps.components._components:Molecule.copy',
             'gaddlemaps.components._components:Molecule.__eq__', 'gaddlemaps.components._components:Atom.__eq__',
             'gaddlemaps.components._components:Molecule.resids', 'gaddlemaps.components._residue:Residue.copy',
             'gaddlemaps.components._residue:AtomGro.copy']
EXPLANATION = ('Inductive step: after construction the per-anchor frame dictionary is overwritten with arbitrary symbolic frames (what '
               'any earlier call could have left), the real __call__ runs on an arbitrary symbolic argument and the result is proved '
               'equal, coordinate by coordinate, to the result of a freshly built map on the same argument; the stored projections / '
               'equivalences and the key set of the frame dictionary are shown unchanged by the call (frame condition), which closes '
               'the induction for call histories of any length.  Explicit histories: every sequence of up to 3 operations over '
               '{valid call, call on a second conformation, call on the construction reference object itself, other-species argument, same-name '
               'molecule with one atom more/less, non-molecule argument, overwrite the coordinates of the construction reference, of the '
               'construction target, move the argument object in place} with symbolic values is executed on the real objects; results for '
               'equal arguments are proved equal, rejected arguments raise TypeError and change nothing, argument / construction / '
               'previously returned molecules keep their coordinate terms, names, residue names, atom count/order come from the target '
               'and residue numbers from the argument.')
BOUNDS = {'quick': {'reference': '3-chain and 4-star, 1 residue; 4-chain in 2 residues', 'target': '2 atoms',
                    'histories': 'all sequences of <= 2 operations over 9 operation kinds + one final valid call (91 for the 3-chain, 10 for the others)', 'inductive step': '1'},
          'thorough': {'histories': 'all sequences of <= 3 operations for the 3-chain (820), <= 2 for the others (91 each)', 'reference': 'as quick plus the 4-chain in one residue (a 4-ring with four anchors and three conformations per history exceeded 50 minutes and was dropped)'}}
OUTSIDE = ['explicit histories longer than 3 operations (covered by the inductive step only)', 'binary64 rounding',
           'later changes of names / residue labels of the construction molecules (the statement speaks of what the map returns for an argument)']
STUBS = ['scipy euclidean -> pure version', 'molecules built directly; the frame construction is the real calcule_base']
ASSUMPTIONS = ['atoms at distinct positions, anchors non-collinear with their frame neighbours (the collinear branches are the subject of C01/C02)',
               'reference and target have the same number of residues', 'exact real arithmetic']
CASE_TIMEOUT = {'quick': 900, 'thorough': 3000}

OPS = ['call_A', 'call_B', 'call_ref', 'bad_species', 'bad_prefix', 'bad_type', 'mutate_ref', 'mutate_tgt', 'mutate_A']


def cases(tier):
    cs = []
    graphs = {'chain3': (3, [(0, 1), (1, 2)], [0, 0, 0]), 'star4': (4, [(0, 1), (0, 2), (0, 3)], [0, 0, 0, 0]),
              'chain4-2res': (4, [(0, 1), (1, 2), (2, 3)], [0, 0, 1, 1])}
    if tier == 'thorough':
        graphs['chain4'] = (4, [(0, 1), (1, 2), (2, 3)], [0, 0, 0, 0])
    L = 2 if tier == 'quick' else 3
    for nm, (n, g, res) in graphs.items():
        cs.append({'name': 'inductive-step/%s' % nm, 'n': n, 'edges': g, 'res': res, 'mode': 'step'})
        hs = [list(h) for l in range(L + 1) for h in itertools.product(OPS, repeat=l)]
        if nm != 'chain3':
            hs = [h for h in hs if len(h) <= (1 if tier == 'quick' else 2)]
        for i in range(0, len(hs), 12 if tier == 'quick' else 30):
            cs.append({'name': 'histories/%s/%d' % (nm, i), 'n': n, 'edges': g, 'res': res, 'mode': 'hist', 'histories': hs[i:i + (12 if tier == 'quick' else 30)]})
    return cs


def _atoms(n, res, prefix, resname):
    return [('%s%d' % (prefix, i), '%s%d' % (resname, res[i]), 1 + res[i]) for i in range(n)]


def run_case(case):
    from symx.core import explore, SymReal, expr, concretize_inputs, Ctx
    from symx import npx
    from symx.mol import make_molecule, make_top
    npx.install()
    from gaddlemaps import ExchangeMap
    from gaddlemaps.components import Molecule
    cap = 60000 if case['tier'] == 'quick' else 180000
    n, edges, res = case['n'], [tuple(e) for e in case['edges']], case['res']
    nt = 2
    tres = [0, max(res)] if max(res) else [0, 0]
    records, samples, nontrivial = [], [], []
    st = {'paths': 0, 'queries': 0, 'solver_s': 0.0}
    V = {nm: [[z3.Real('%s%d_%d' % (nm, i, k)) for k in range(3)] for i in range(n)] for nm in ('x', 'a', 'b', 'm')}
    tv = [[z3.Real('t%d_%d' % (j, k)) for k in range(3)] for j in range(nt)]
    tm = [[z3.Real('u%d_%d' % (j, k)) for k in range(3)] for j in range(nt)]
    s = z3.Real('s')
    inputs = {'s': s}
    for nm, rows in list(V.items()) + [('t', tv), ('u', tm)]:
        for i, row in enumerate(rows):
            for k in range(3):
                inputs['%s%d_%d' % (nm, i, k)] = row[k]
    Ctx.default_sample_inputs = inputs
    adj = {i: sorted(b if a_ == i else a_ for a_, b in edges if i in (a_, b)) for i in range(n)}
    anchors = [i for i in range(n) if len(adj[i]) >= 2]
    ratoms = _atoms(n, res, 'C', 'R')
    tatoms = _atoms(nt, tres, 'A', 'T')

    def sym(rows):
        return [[SymReal(v) for v in row] for row in rows]

    def preconditions(ctx, conformations):
        ctx.assume(z3.And(s > 0, s <= 2))
        for rows in conformations:
            for i in range(n):
                for j in range(i):
                    ctx.assume(z3.Or(*[rows[i][k] != rows[j][k] for k in range(3)]))
            for a_ in anchors:
                d1 = [rows[adj[a_][0]][c] - rows[a_][c] for c in range(3)]
                d2 = [rows[adj[a_][1]][c] - rows[a_][c] for c in range(3)]
                cr = [d1[1] * d2[2] - d1[2] * d2[1], d1[2] * d2[0] - d1[0] * d2[2], d1[0] * d2[1] - d1[1] * d2[0]]
                ctx.assume(z3.Or(*[x != 0 for x in cr]))
        if len(anchors) >= 3:
            from symx.frames import assume_no_distance_ties
            assume_no_distance_ties(ctx, tv, [V['x'][a_] for a_ in anchors])

    def coords_terms(mol):
        return [[expr(c) for c in row] for row in mol.atoms_positions]

    def same_terms(A, B):
        return all(z3.eq(z3.simplify(p), z3.simplify(q)) for ra, rb in zip(A, B) for p, q in zip(ra, rb))

    def wit(ctx, extra, model, nm, hist=None):
        return {'kind': 'history', 'n': n, 'edges': edges, 'res': res, 'history': hist, 'obligation': nm,
                'inputs': concretize_inputs(ctx, extra, inputs, model, grids=(1, 2, 4))}

    def prove_equal(ctx, tag, A, B, hist=None):
        """coordinate terms A == B: syntactic identity first, else a solver query"""
        if same_terms(A, B):
            records.append({'name': tag + ' (identical terms)', 'status': 'unsat', 'secs': 0})
            return
        claim = z3.And(*[p == q for ra, rb in zip(A, B) for p, q in zip(ra, rb)])
        r, secs, mo = ctx.prove(claim, cap)
        rec = {'name': tag, 'status': r, 'secs': secs}
        if r == 'sat':
            rec['witness'] = wit(ctx, [z3.Not(claim)], mo, tag, hist)
        records.append(rec)

    def flag(tag, ok, hist=None):
        rec = {'name': tag, 'status': 'unsat' if ok else 'sat', 'secs': 0}
        if not ok:
            rec['witness'] = {'kind': 'history', 'n': n, 'edges': edges, 'res': res, 'history': hist, 'obligation': tag,
                              'inputs': {k: ([1, 2] if k == 's' else [(5 * i) % 19 - 9, 4]) for i, k in enumerate(sorted(inputs))}}
        records.append(rec)

    top_ref = None

    def mkref(rows, resid_offset=0):
        # all conformations of the reference share one topology object, as the molecules of a System do
        return make_molecule('REF', ratoms, edges, sym(rows), resid_offset=resid_offset, top=top_ref, resid_stride=3 if resid_offset else 1)

    if case['mode'] == 'step':
        def run(ctx):
            nonlocal top_ref
            top_ref = make_top('REF', ratoms, edges)
            preconditions(ctx, [V['x'], V['a']])
            ref = mkref(V['x'])
            tgt = make_molecule('TGT', tatoms, [(0, 1)], sym(tv))
            m = ExchangeMap(ref, tgt, SymReal(s))
            keys0 = set(m._refsystems)
            eq0, tc0 = m._equivalences, m._target_coordinates
            eq_snapshot = dict(eq0)
            tc_snapshot = {k: [expr(c) for c in v] for k, v in tc0.items()}
            # arbitrary stale frame state
            for key in list(m._refsystems):
                fr = tuple(np.array([SymReal(ctx.freshvar('stale%d_%d%d' % (key, j, c))) for c in range(3)], dtype=object) for j in range(3))
                m._refsystems[key] = (fr, np.array([SymReal(ctx.freshvar('staleO%d_%d' % (key, c))) for c in range(3)], dtype=object))
            arg = mkref(V['a'], resid_offset=5)
            out = m(arg)
            fresh = ExchangeMap(mkref(V['x']), make_molecule('TGT', tatoms, [(0, 1)], sym(tv)), SymReal(s))
            out_f = fresh(mkref(V['a'], resid_offset=5))
            frame_ok = (set(m._refsystems) == keys0 and m._equivalences is eq0 and m._target_coordinates is tc0 and
                        dict(m._equivalences) == eq_snapshot and
                        all(all(z3.eq(expr(c), t) for c, t in zip(m._target_coordinates[k], tc_snapshot[k])) for k in tc_snapshot))
            return out, out_f, frame_ok, arg
        for ctx, res_, exc in explore(run, max_paths=400):
            st['paths'] += 1
            pidx = st['paths']
            if res_ is None:
                r, secs, m_ = ctx.reachable(cap)
                records.append({'name': 'path%d: aborted path is infeasible under the preconditions' % pidx, 'status': 'unsat' if r == 'unsat' else ('unknown' if r == 'unknown' else 'sat'),
                                'secs': secs, 'witness': wit(ctx, [], m_, 'abort') if r == 'sat' else None})
                continue
            nontrivial.append('path%d' % pidx)
            out, out_f, frame_ok, arg = res_
            if pidx == 1:
                records.append(core_twin(ctx, cap))
            prove_equal(ctx, 'path%d: call from arbitrary stale frames = freshly built map on the same argument' % pidx,
                        coords_terms(out), coords_terms(out_f))
            stale = set()
            from symx.core import term_vars
            for row in coords_terms(out):
                for t in row:
                    stale |= {v for v in term_vars(t) if v.startswith('stale')}
            flag('path%d: result does not mention any stale frame variable' % pidx, not stale)
            flag('path%d: frame condition: projections, equivalences and the key set of the frame dictionary unchanged by the call' % pidx, frame_ok)
            flag('path%d: result carries the argument\'s residue numbers and the target\'s names' % pidx,
                 out.resids == arg.resids[:len(out.resids)] + out.resids[len(arg.resids):] and [a.name for a in out] == [t[0] for t in tatoms])
            if len(samples) < 2:
                samples.append({'mode': 'inductive step', 'graph': edges, 'path_condition': [str(p)[:80] for p in ctx.pc][:4]})
            st['queries'] += ctx.queries; st['solver_s'] += ctx.solver_time
        return {'records': records, 'paths': st['paths'], 'queries': st['queries'], 'solver_s': st['solver_s'], 'samples': samples, 'nontrivial': nontrivial}

    # ---------------- explicit histories ----------------------------------------------------------------
    for hist in case['histories']:
        tagh = 'history %s+[call_A]' % (hist,)

        def run(ctx, hist=hist):
            nonlocal top_ref
            top_ref = make_top('REF', ratoms, edges)
            preconditions(ctx, [V['x'], V['a'], V['b'], V['m']])
            ref = mkref(V['x'])
            tgt = make_molecule('TGT', tatoms, [(0, 1)], sym(tv))
            m = ExchangeMap(ref, tgt, SymReal(s))
            argA, argB = mkref(V['a'], 3), mkref(V['b'], 7)
            other = make_molecule('OTH', _atoms(n, res, 'X', 'R'), edges, sym(V['a']))
            # same species name and identical leading atoms, but one atom more / one atom less
            longer = make_molecule('REF', ratoms + [('C%d' % n, ratoms[-1][1], ratoms[-1][2])], edges + [(n - 1, n)], sym(V['a']) + [[SymReal(z3.Real('extra%d' % k)) for k in range(3)]])
            shorter = make_molecule('REF', ratoms[:-1], [e for e in edges if n - 1 not in e], sym(V['a'])[:-1]) if n > 3 else None
            cur = {'A': V['a'], 'B': V['b'], 'ref': V['x']}      # current coordinate rows of the objects that may be changed in place
            log = {'returned': [], 'type_errors': 0, 'expected_type_errors': 0, 'state_ok': True, 'pure_ok': True}
            for op in hist + ['call_A']:
                before = (dict(m._equivalences), {k: [expr(c) for c in v] for k, v in m._target_coordinates.items()})
                if op in ('call_A', 'call_B', 'call_ref'):
                    arg = {'call_A': argA, 'call_B': argB, 'call_ref': ref}[op]
                    key = {'call_A': 'A', 'call_B': 'B', 'call_ref': 'ref'}[op]
                    terms = coords_terms(arg)
                    prev = [(r_, coords_terms(r_)) for _, r_, _, _ in log['returned']]
                    out = m(arg)
                    # "unaffected by later changes to the molecules the map was built from": the result may mention the coordinates
                    # written into the construction reference / target only if they are the argument's own coordinates
                    from symx.core import term_vars as _tv
                    deps = set()
                    for row in coords_terms(out):
                        for t_ in row:
                            deps |= {v_ for v_ in _tv(t_) if v_[0] in 'mu' and v_[1:2].isdigit()}
                    if cur[key] is V['m']:
                        deps = {v_ for v_ in deps if not v_.startswith('m')}
                    if deps:
                        log.setdefault('leaks', []).append((op, sorted(deps)[:4]))
                    log['returned'].append((op, out, coords_terms(out), (cur[key], arg.resids[0] - 1)))
                    log['pure_ok'] &= same_terms(coords_terms(arg), terms)
                    log['pure_ok'] &= all(same_terms(coords_terms(r_), t_) for r_, t_ in prev)
                    log['pure_ok'] &= out.resids == arg.resids and [a.name for a in out] == [t[0] for t in tatoms]
                    log['pure_ok'] &= [a.resname for a in out] == [t[1] for t in tatoms] and len(out) == nt
                elif op in ('bad_species', 'bad_type', 'bad_prefix'):
                    bads = [other] if op == 'bad_species' else [[1, 2, 3]] if op == 'bad_type' else [x for x in (longer, shorter) if x is not None]
                    for b_ in bads:
                        log['expected_type_errors'] += 1
                        try:
                            m(b_)
                        except TypeError:
                            log['type_errors'] += 1
                    after = (dict(m._equivalences), {k: [expr(c) for c in v] for k, v in m._target_coordinates.items()})
                    log['state_ok'] &= before[0] == after[0] and all(all(z3.eq(p, q) for p, q in zip(before[1][k], after[1][k])) for k in before[1])
                elif op == 'mutate_ref':
                    ref.atoms_positions = np.array(sym(V['m']), dtype=object)
                    cur['ref'] = V['m']
                elif op == 'mutate_tgt':
                    tgt.atoms_positions = np.array(sym(tm), dtype=object)
                elif op == 'mutate_A':
                    argA.atoms_positions = np.array(sym(V['b']), dtype=object)      # the caller moves the same object in place
                    cur['A'] = V['b']
            fresh = ExchangeMap(mkref(V['x']), make_molecule('TGT', tatoms, [(0, 1)], sym(tv)), SymReal(s))
            out_f = [coords_terms(fresh(mkref(rows, off))) for _, _, _, (rows, off) in log['returned']]
            return log, out_f
        np_here = 0
        for ctx, res_, exc in explore(run, max_paths=200):
            st['paths'] += 1
            if res_ is None:
                r, secs, m_ = ctx.reachable(cap)
                records.append({'name': '%s: aborted path is infeasible under the preconditions' % tagh, 'status': 'unsat' if r == 'unsat' else ('unknown' if r == 'unknown' else 'sat'),
                                'secs': secs, 'witness': wit(ctx, [], m_, 'abort', hist) if r == 'sat' else None})
                continue
            np_here += 1
            nontrivial.append('%s/p%d' % (hist, np_here))
            log, out_f = res_
            if not records:
                records.append(core_twin(ctx, cap))
            for q_, (op, out, terms, _) in enumerate(log['returned']):
                prove_equal(ctx, '%s path%d: %s result = freshly built map on the argument\'s current coordinates' % (tagh, np_here, op), terms, out_f[q_], hist)
            flag('%s path%d: rejected arguments raise TypeError (%d/%d) and leave the map state untouched' % (
                tagh, np_here, log['type_errors'], log['expected_type_errors']), log['type_errors'] == log['expected_type_errors'] and log['state_ok'], hist)
            flag('%s path%d: results do not depend on coordinates written into the construction molecules after the map was built %s' % (tagh, np_here, log.get('leaks', '')),
                 not log.get('leaks'), hist)
            flag('%s path%d: argument, previously returned molecules unchanged; names/resnames/order from the target, residue numbers from the argument' % (tagh, np_here),
                 bool(log['pure_ok']), hist)
            if len(samples) < 3:
                samples.append({'history': hist + ['call_A'], 'graph': edges})
            st['queries'] += ctx.queries; st['solver_s'] += ctx.solver_time
    return {'records': records, 'paths': st['paths'], 'queries': st['queries'], 'solver_s': st['solver_s'], 'samples': samples, 'nontrivial': nontrivial}


def replay(w):
    from symx.core import fval
    from symx.mol import make_molecule, make_top
    from gaddlemaps import ExchangeMap
    v = {k: fval(x) for k, x in w['inputs'].items()}
    n, edges, res = w['n'], [tuple(e) for e in w['edges']], w['res']
    nt = 2
    tres = [0, max(res)] if max(res) else [0, 0]
    ratoms, tatoms = _atoms(n, res, 'C', 'R'), _atoms(nt, tres, 'A', 'T')
    top = make_top('REF', ratoms, edges)
    C = {nm: np.array([[v['%s%d_%d' % (nm, i, k)] for k in range(3)] for i in range(n)]) for nm in 'xabm'}
    T = np.array([[v['t%d_%d' % (j, k)] for k in range(3)] for j in range(nt)])
    U = np.array([[v['u%d_%d' % (j, k)] for k in range(3)] for j in range(nt)])
    s = v['s']
    mkref = lambda X, off=0: make_molecule('REF', ratoms, edges, X, resid_offset=off, top=top, resid_stride=3 if off else 1)
    mktgt = lambda: make_molecule('TGT', tatoms, [(0, 1)], T)
    bad = []
    hist = (w.get('history') or []) + ['call_A']
    ref, tgt = mkref(C['x']), mktgt()
    with np.errstate(all='ignore'):
        m = ExchangeMap(ref, tgt, s)
        # pollute with calls on other conformations first (stale frame state), as the inductive step does symbolically
        if w.get('history') is None:
            m(mkref(C['b'], 7)); m(mkref(C['m'], 9))
        argA, argB = mkref(C['a'], 3), mkref(C['b'], 7)
        other = make_molecule('OTH', _atoms(n, res, 'X', 'R'), edges, C['a'])
        longer = make_molecule('REF', ratoms + [('C%d' % n, ratoms[-1][1], ratoms[-1][2])], edges + [(n - 1, n)], np.vstack([C['a'], [[9.0, 9.0, 9.0]]]))
        shorter = make_molecule('REF', ratoms[:-1], [e for e in edges if n - 1 not in e], C['a'][:-1]) if n > 3 else None
        returned = []
        for op in hist:
            if op in ('call_A', 'call_B', 'call_ref'):
                arg = {'call_A': argA, 'call_B': argB, 'call_ref': ref}[op]
                before = arg.atoms_positions.copy()
                prev = [(r_, r_.atoms_positions.copy()) for _, r_, _ in returned]
                out = m(arg)
                returned.append((op, out, (before.copy(), arg.resids[0] - 1)))
                if np.abs(arg.atoms_positions - before).max() > 0:
                    bad.append('argument coordinates modified')
                if any(np.abs(r_.atoms_positions - p_).max() > 0 for r_, p_ in prev):
                    bad.append('previously returned molecule modified')
                if out.resids != arg.resids or [a.name for a in out] != [t[0] for t in tatoms]:
                    bad.append('wrong residue numbers / names in the result')
            elif op in ('bad_species', 'bad_type', 'bad_prefix'):
                bads = [other] if op == 'bad_species' else [[1, 2, 3]] if op == 'bad_type' else [x for x in (longer, shorter) if x is not None]
                for b_ in bads:
                    try:
                        m(b_)
                        bad.append('%s accepted (no TypeError)' % op)
                    except TypeError:
                        pass
                    except Exception as e:
                        bad.append('%s raised %s instead of TypeError' % (op, type(e).__name__))
            elif op == 'mutate_ref':
                ref.atoms_positions = C['m']
            elif op == 'mutate_tgt':
                tgt.atoms_positions = U
            elif op == 'mutate_A':
                argA.atoms_positions = C['b']
        fresh = ExchangeMap(mkref(C['x']), mktgt(), s)
        for op, out, (rows, off) in returned:
            want = fresh(mkref(rows, off)).atoms_positions
            if not np.all(np.isfinite(out.atoms_positions)) or np.abs(out.atoms_positions - want).max() > 1e-9:
                bad.append('%s result differs from a freshly built map applied to the same coordinates' % op)
    bad = sorted(set(bad))
    return {'reproduced': bool(bad), 'what': 'ExchangeMap call history %s: %s' % (hist, '; '.join(bad)), 'detail': {'history': hist}}
