"""C19 - periodic distance is the minimum-image distance.
Real Residue.distance_to (both inv modes) on symbolic points and boxes (z3 mixed Int/Real)."""
import numpy as np
import z3
from symx.core import twin_record as core_twin

ID = 'C19'
FUNCTIONS = ['gaddlemaps.components._residue:Residue.distance_to',
             'gaddlemaps.components._residue:Residue.geometric_center']
EXPLANATION = ('Real Residue.distance_to executed on symbolic points / residues and symbolic boxes (diagonal with free '
               'positive edges; GROMACS lower-triangular triclinic with free entries).  The claim is decomposed '
               '(one radical family / one lattice per query): (1) the vector whose norm is returned is (f - rint f).B with '
               'f.B = separation; (2) per-axis lemma |g|<=1/2 => (g+m)^2 >= g^2 for every integer m, scaled by L^2, '
               'gives the minimum over all images for orthorhombic boxes; (3) symmetry; (4) invariance under integer '
               'lattice shifts (symbolic integers, ties excluded as in the statement); (5) inverse-flag agreement.')
BOUNDS = {'points': 'unbounded reals', 'orthorhombic edges': 'any L>0', 'triclinic': 'lower-triangular, diagonal>0, any skew',
          'lattice shifts': 'unbounded integers', 'residue sizes': '1 and 2 atoms (centre = mean)'}
OUTSIDE = ['binary64 rounding', 'minimum-image for triclinic boxes (not claimed by the property either)',
           'general (non lower-triangular) 3x3 boxes']
STUBS = ['np.linalg.inv -> adjugate/determinant (LAPACK boundary); det != 0 forked',
         'np.round -> fresh Int k with |x-k|<=1/2, ties to even', 'np.linalg.norm -> real numpy; sqrt(e) -> fresh r>=0, r*r=e']
ASSUMPTIONS = ['box edges > 0 / box non-singular', 'exact real arithmetic',
               'lattice-shift obligations assume no exact tie (|f - rint f| < 1/2), as the property statement does']
CASE_TIMEOUT = {'quick': 500, 'thorough': 1500}


def cases(tier):
    cs = [{'name': 'lemma/per-axis'}]
    for box in ('ortho', 'tric'):
        for ob in ('wrapped-vector', 'symmetry', 'lattice', 'inv-flag'):
            cs.append({'name': '%s/%s/point' % (box, ob), 'box': box, 'ob': ob, 'arg': 'point'})
    cs.append({'name': 'ortho/wrapped-vector/residues', 'box': 'ortho', 'ob': 'wrapped-vector', 'arg': 'residue'})
    for ob in ('wrapped-vector', 'inv-flag', 'lattice'):
        cs.append({'name': 'triu/%s/point' % ob, 'box': 'triu', 'ob': ob, 'arg': 'point'})
    for box in ('ortho', 'tric'):
        cs.append({'name': '%s/mutated-box/point' % box, 'box': box, 'ob': 'mutated-box', 'arg': 'point'})
    if tier == 'thorough':
        for box in ('ortho', 'tric'):
            for ob in ('symmetry', 'lattice', 'inv-flag'):
                cs.append({'name': '%s/%s/residues' % (box, ob), 'box': box, 'ob': ob, 'arg': 'residue'})
        cs.append({'name': 'tric/wrapped-vector/residues', 'box': 'tric', 'ob': 'wrapped-vector', 'arg': 'residue'})
    return cs


def _box(kind, ctx):
    from symx.core import SymReal
    if kind == 'ortho':
        L = [z3.Real('L%d' % i) for i in range(3)]
        for l in L:
            ctx.assume(l > 0)
        B = [[L[0], 0, 0], [0, L[1], 0], [0, 0, L[2]]]
        names = {'L%d' % i: L[i] for i in range(3)}
    else:
        a, b, c, d, e, f = [z3.Real('B' + n) for n in 'abcdef']
        for l in (a, c, f):
            ctx.assume(l > 0)
        # 'tric': GROMACS lower-triangular form; 'triu': the transposed (upper-triangular) form - a non-singular box
        # that is not in the GROMACS convention (the statement speaks of every non-singular box)
        B = [[a, 0, 0], [b, c, 0], [d, e, f]] if kind == 'tric' else [[a, b, d], [0, c, e], [0, 0, f]]
        names = {'B' + n: v for n, v in zip('abcdef', (a, b, c, d, e, f))}
    arr = np.array([[SymReal(x) if not isinstance(x, int) else x for x in row] for row in B], dtype=object)
    return arr, B, names


def run_case(case):
    from symx.core import explore, SymReal, expr, concretize_inputs, Ctx
    from symx import npx
    records, samples, nontrivial = [], [], []
    paths = queries = 0
    solver_s = 0.0
    cap = 60000 if case['tier'] == 'quick' else 180000
    if case['name'].startswith('lemma'):
        g, m = z3.Real('g'), z3.Int('m')
        import time
        s = z3.Solver(); s.set('timeout', cap)
        s.add(g <= z3.RealVal('1/2'), g >= -z3.RealVal('1/2'), (g + z3.ToReal(m)) * (g + z3.ToReal(m)) < g * g)
        t = time.time(); r = str(s.check())
        records.append({'name': '|g|<=1/2, m integer => (g+m)^2 >= g^2', 'status': r, 'secs': round(time.time() - t, 3)})
        L = z3.Real('L')
        s = z3.Solver(); s.set('timeout', cap)
        s.add(L > 0, g <= z3.RealVal('1/2'), g >= -z3.RealVal('1/2'), ((g + z3.ToReal(m)) * L) * ((g + z3.ToReal(m)) * L) < (g * L) * (g * L))
        t = time.time(); r = str(s.check())
        records.append({'name': 'scaled: ((g+m)L)^2 >= (gL)^2', 'status': r, 'secs': round(time.time() - t, 3)})
        return {'records': records, 'paths': 0, 'queries': 2, 'solver_s': 0, 'samples': [{'lemma': 'per-axis minimum image'}], 'nontrivial': ['lemma1', 'lemma2']}

    npx.install(modules=['gaddlemaps.components._residue'])
    from gaddlemaps.components import Residue, AtomGro
    kind, ob, argk = case['box'], case['ob'], case['arg']
    xs = [[z3.Real('x%d_%d' % (a, i)) for i in range(3)] for a in range(2)]
    ys = [[z3.Real('y%d_%d' % (a, i)) for i in range(3)] for a in range(2)]
    nat = 1 if argk == 'point' else 2
    inputs = {}
    for a in range(nat):
        for i in range(3):
            inputs['x%d_%d' % (a, i)] = xs[a][i]
            inputs['y%d_%d' % (a, i)] = ys[a][i]
    nshift = [z3.Int('n%d' % i) for i in range(3)]

    def mkres(vs, shift=None):
        atoms = []
        for a in range(nat):
            c = [SymReal(v) for v in vs[a]]
            if shift is not None:
                c = [ci + si for ci, si in zip(c, shift)]
            atoms.append(AtomGro([1, 'A', 'C%d' % a, a + 1, c[0], c[1], c[2]]))
        return Residue(atoms)

    def centre(vs):
        return [sum(vs[a][i] for a in range(nat)) / nat for i in range(3)]

    def run(ctx):
        B, Braw, bnames = _box(kind, ctx)
        inputs.update(bnames)
        out = {'B': Braw}
        rx = mkres(xs)
        if argk == 'point':
            arg = np.array([SymReal(v) for v in ys[0]], dtype=object)
        else:
            arg = mkres(ys)
        if ob == 'mutated-box':
            # history: one call, then the caller rescales the same box array in place (symbolic factor), then the
            # call under test; everything below is about the second call and the rescaled box
            rx.distance_to(arg, box_vects=B)
            sc = z3.Real('scale')
            ctx.assume(sc > 0)
            inputs['scale'] = sc
            for i_ in range(3):
                for j_ in range(3):
                    if not isinstance(B[i_, j_], int) or B[i_, j_] != 0:
                        B[i_, j_] = B[i_, j_] * SymReal(sc)
            Braw = [[(Braw[i_][j_] * sc if not isinstance(Braw[i_][j_], int) else Braw[i_][j_]) for j_ in range(3)] for i_ in range(3)]
            out['B'] = Braw
        mark = len(ctx.log)
        out['d'] = rx.distance_to(arg, box_vects=B)
        out['rints'] = [(e, k) for (t, e, k) in [l for l in ctx.log[mark:] if l[0] == 'rint']]
        out['rad'] = ctx.sqrts[-1][1] if False else None
        out['rad'] = _radicand(ctx, out['d'])
        if ob == 'symmetry':
            mark = len(ctx.log)
            if argk == 'point':
                ry = Residue([AtomGro([1, 'A', 'C0', 1] + [SymReal(v) for v in ys[0]])])
                out['d2'] = ry.distance_to(np.array([SymReal(v) for v in xs[0]], dtype=object), box_vects=B)
            else:
                out['d2'] = mkres(ys).distance_to(mkres(xs), box_vects=B)
            out['rints2'] = [(l[1], l[2]) for l in ctx.log[mark:] if l[0] == 'rint']
            out['rad2'] = _radicand(ctx, out['d2'])
        elif ob == 'lattice':
            shift = [sum(z3.ToReal(nshift[j]) * (Braw[j][i] if not isinstance(Braw[j][i], int) else z3.RealVal(Braw[j][i])) for j in range(3)) for i in range(3)]
            shift = [SymReal(s) for s in shift]
            mark = len(ctx.log)
            if argk == 'point':
                arg2 = np.array([SymReal(v) + s for v, s in zip(ys[0], shift)], dtype=object)
            else:
                arg2 = mkres(ys, shift)
            out['d2'] = rx.distance_to(arg2, box_vects=B)
            out['rints2'] = [(l[1], l[2]) for l in ctx.log[mark:] if l[0] == 'rint']
            out['rad2'] = _radicand(ctx, out['d2'])
            for i in range(3):
                inputs['n%d' % i] = nshift[i]
        elif ob == 'inv-flag':
            Binv = npx.NPProxy().linalg.inv(B)
            mark = len(ctx.log)
            out['d2'] = rx.distance_to(arg, box_vects=Binv, inv=True)
            out['rints2'] = [(l[1], l[2]) for l in ctx.log[mark:] if l[0] == 'rint']
            out['rad2'] = _radicand(ctx, out['d2'])
        return out

    def _radicand(ctx, d):
        e = expr(d)
        if z3.is_const(e) and e.decl().name() in ctx.defs:
            return ctx.defs[e.decl().name()]       # raw radicand (sub-terms intact for let-abstraction)
        return e * e

    def oblig(ctx, nm, claim, hyp=(), wkind=None, abstract=None, drop=()):
        if abstract is not None:
            r, secs, m = ctx.prove_abstracted(claim, abstract, list(hyp), cap, fallback_hyp=hyp, drop_prefixes=drop)
        else:
            r, secs, m = ctx.prove(claim, cap, extra_hyp=hyp)
        rec = {'name': 'path%d: %s' % (paths, nm), 'status': r, 'secs': secs}
        if r == 'sat':
            rec['witness'] = {'kind': wkind or ob, 'box': kind, 'arg': argk,
                              'inputs': concretize_inputs(ctx, list(hyp) + [z3.Not(claim)], inputs, m), 'obligation': nm}
        records.append(rec)
        return r

    for ctx, res, exc in explore(run):
        paths += 1
        if res is None:
            r, secs, m = ctx.reachable(cap)
            rec = {'name': 'path%d: finite (no division by zero for a non-singular box)' % paths, 'status': r, 'secs': secs}
            if r == 'sat':
                rec['witness'] = {'kind': 'finite', 'box': kind, 'arg': argk, 'inputs': concretize_inputs(ctx, [], inputs, m)}
            records.append(rec)
            queries += ctx.queries; solver_s += ctx.solver_time
            continue
        nontrivial.append('path%d' % paths)
        records.append(core_twin(ctx, cap, inputs))
        Braw = res['B']
        bx = lambda j, i: Braw[j][i] if not isinstance(Braw[j][i], int) else z3.RealVal(Braw[j][i])
        cx, cy = centre(xs), centre(ys)
        sep = [cy[i] - cx[i] for i in range(3)]
        f = [e for e, k in res['rints']]
        k = [z3.ToReal(kk) for e, kk in res['rints']]
        if len(f) != 3:
            # this path of the code did not wrap three fractional coordinates (e.g. an early exit): the returned value must still
            # be the norm of (f - k).B for the harness' own fractional coordinates f = sep.B^-1 and nearest integers k
            from symx.core import SymReal as _SR
            Bn = np.array([[_SR(bx(j, i)) for i in range(3)] for j in range(3)], dtype=object)
            Binv = npx.NPProxy().linalg.inv(Bn)
            fo = [sum(sep[i] * expr(Binv[i][j]) for i in range(3)) for j in range(3)]
            ko = [z3.Int('kown%d' % j) for j in range(3)]
            hyp = [z3.And(fo[j] - z3.ToReal(ko[j]) < z3.RealVal('1/2'), fo[j] - z3.ToReal(ko[j]) > -z3.RealVal('1/2')) for j in range(3)]
            want = sum((sum((fo[j] - z3.ToReal(ko[j])) * bx(j, i) for j in range(3))) ** 2 for i in range(3))
            oblig(ctx, 'path without three roundings: |returned|^2 = |(f - nearest integer).B|^2 for f = sep.B^-1', res['rad'] == want, hyp, wkind='wrapped-vector')
            continue
        # let-abstraction (DESIGN 2.3 rule 4): the three fractional coordinates (large rational functions of the
        # inputs) become fresh reals g_j; ToReal(k_j) fresh reals too where integrality is not needed
        g = [z3.Real('g!abs%d' % j) for j in range(3)]
        kr = [z3.Real('kr!abs%d' % j) for j in range(3)]
        abs_f = [[(f[j], g[j]) for j in range(3)]]
        abs_fk = [[(f[j], g[j]) for j in range(3)], [(k[j], kr[j]) for j in range(3)]]
        notie = [z3.And(f[i] - k[i] < z3.RealVal('1/2'), f[i] - k[i] > -z3.RealVal('1/2')) for i in range(3)]
        if ob in ('wrapped-vector', 'mutated-box'):
            # (1) fractional coordinates: f.B = separation
            r1 = oblig(ctx, 'f . B = separation', z3.And(*[sum(f[j] * bx(j, i) for j in range(3)) == sep[i] for i in range(3)]),
                       abstract=[[]], drop=('rint!', 'sqrt!'))
            # (2) the returned norm is that of (f - rint f).B
            want = sum((sum((f[j] - k[j]) * bx(j, i) for j in range(3))) ** 2 for i in range(3))
            oblig(ctx, '|returned|^2 = |(f - rint f).B|^2', res['rad'] == want, abstract=abs_fk)
            oblig(ctx, 'returned >= 0', expr(res['d']) >= 0)
            if kind == 'ortho' and r1 == 'unsat':
                n = [z3.Int('img%d' % i) for i in range(3)]
                for i in range(3):
                    # uses (1) as hypothesis: sep_i = f_i L_i
                    oblig(ctx, 'axis %d: wrapped component is minimal over all images' % i,
                          ((f[i] - k[i]) * bx(i, i)) ** 2 <= (f[i] * bx(i, i) - z3.ToReal(n[i]) * bx(i, i)) ** 2, abstract=abs_f)
                oblig(ctx, 'never exceeds the non-periodic distance (image 0)',
                      z3.And(*[((f[i] - k[i]) * bx(i, i)) ** 2 <= (f[i] * bx(i, i)) ** 2 for i in range(3)]), abstract=abs_f)
        elif ob in ('symmetry', 'lattice', 'inv-flag') and len(res.get('rints2', [])) != 3:
            # the second evaluation did not wrap three fractional coordinates (an early exit / fast path): no staged proof,
            # the end-to-end equality is asked directly
            what = {'symmetry': 'd(x,y) = d(y,x)', 'lattice': 'd(x, y + n.B) = d(x, y)', 'inv-flag': 'distance_to(B^-1, inv=True) = distance_to(B)'}[ob]
            oblig(ctx, what + ' (second evaluation without three roundings: direct query)', res['rad2'] == res['rad'], notie)
        elif ob == 'symmetry':
            f2 = [e for e, kk in res['rints2']]
            k2 = [z3.ToReal(kk) for e, kk in res['rints2']]
            g2 = [z3.Real('g2!abs%d' % j) for j in range(3)]
            kr2 = [z3.Real('kr2!abs%d' % j) for j in range(3)]
            r1 = oblig(ctx, 'fractional coordinates are negated', z3.And(*[f2[i] == -f[i] for i in range(3)]))
            ab2 = [[(f[j], g[j]) for j in range(3)] + [(f2[j], g2[j]) for j in range(3)]]
            hyp = notie + ([g2[i] == -g[i] for i in range(3)] if r1 == 'unsat' else [])
            r2 = oblig(ctx, 'rint(-f) = -rint(f) (no tie)', z3.And(*[k2[i] == -k[i] for i in range(3)]), hyp, abstract=ab2)
            ab3 = [ab2[0], [(k[j], kr[j]) for j in range(3)] + [(k2[j], kr2[j]) for j in range(3)]]
            hyp = [g2[i] == -g[i] for i in range(3)] if r1 == 'unsat' else []
            if r2 == 'unsat':
                hyp = hyp + [kr2[i] == -kr[i] for i in range(3)]
            oblig(ctx, 'd(x,y) = d(y,x)', res['rad2'] == res['rad'], hyp, abstract=ab3)
        elif ob == 'lattice':
            f2 = [e for e, kk in res['rints2']]
            k2 = [z3.ToReal(kk) for e, kk in res['rints2']]
            g2 = [z3.Real('g2!abs%d' % j) for j in range(3)]
            kr2 = [z3.Real('kr2!abs%d' % j) for j in range(3)]
            nn = [z3.ToReal(v) for v in nshift]
            nr = [z3.Real('nu!abs%d' % j) for j in range(3)]
            r1 = oblig(ctx, 'shift by n.B adds n to the fractional coordinates', z3.And(*[f2[i] == f[i] + nn[i] for i in range(3)]),
                       abstract=[[(nn[j], nr[j]) for j in range(3)]], drop=('rint!', 'sqrt!'))
            ab2 = [[(f[j], g[j]) for j in range(3)] + [(f2[j], g2[j]) for j in range(3)]]
            hyp = notie + ([g2[i] == g[i] + nn[i] for i in range(3)] if r1 == 'unsat' else [])
            r2 = oblig(ctx, 'rint(f+n) = rint(f)+n (no tie)', z3.And(*[k2[i] == k[i] + nn[i] for i in range(3)]), hyp, abstract=ab2)
            ab3 = [ab2[0], [(k[j], kr[j]) for j in range(3)] + [(k2[j], kr2[j]) for j in range(3)] + [(nn[j], nr[j]) for j in range(3)]]
            hyp = [g2[i] == g[i] + nr[i] for i in range(3)] if r1 == 'unsat' else []
            if r2 == 'unsat':
                hyp = hyp + [kr2[i] == kr[i] + nr[i] for i in range(3)]
            oblig(ctx, 'd(x, y + n.B) = d(x, y)', res['rad2'] == res['rad'], hyp, abstract=ab3)
        elif ob == 'inv-flag':
            f2 = [e for e, kk in res['rints2']]
            k2 = [z3.ToReal(kk) for e, kk in res['rints2']]
            g2 = [z3.Real('g2!abs%d' % j) for j in range(3)]
            kr2 = [z3.Real('kr2!abs%d' % j) for j in range(3)]
            r1 = oblig(ctx, 'same fractional coordinates', z3.And(*[f2[i] == f[i] for i in range(3)]))
            ab2 = [[(f[j], g[j]) for j in range(3)] + [(f2[j], g2[j]) for j in range(3)]]
            hyp = notie + ([g2[i] == g[i] for i in range(3)] if r1 == 'unsat' else [])
            r2 = oblig(ctx, 'same rounding (no tie)', z3.And(*[k2[i] == k[i] for i in range(3)]), hyp, abstract=ab2)
            ab3 = [ab2[0], [(k[j], kr[j]) for j in range(3)] + [(k2[j], kr2[j]) for j in range(3)]]
            hyp = [g2[i] == g[i] for i in range(3)] if r1 == 'unsat' else []
            if r2 == 'unsat':
                hyp = hyp + [kr2[i] == kr[i] for i in range(3)]
            oblig(ctx, 'distance_to(B^-1, inv=True) = distance_to(B)', res['rad2'] == res['rad'], hyp, abstract=ab3)
        samples.append({'path_condition': [str(p)[:120] for p in ctx.pc][:4], 'returned^2': str(z3.simplify(res['rad']))[:300]})
        queries += ctx.queries; solver_s += ctx.solver_time
    return {'records': records, 'paths': paths, 'queries': queries, 'solver_s': solver_s, 'samples': samples, 'nontrivial': nontrivial}


def replay(w):
    """Concrete: compare the real distance_to with a brute-force minimum over images (orthorhombic),
    symmetry / lattice invariance / inverse flag otherwise."""
    import itertools
    from symx.core import fval
    from gaddlemaps.components import Residue, AtomGro
    v = {k: fval(x) for k, x in w['inputs'].items()}
    nat = 1 if w['arg'] == 'point' else 2
    X = np.array([[v['x%d_%d' % (a, i)] for i in range(3)] for a in range(nat)])
    Y = np.array([[v['y%d_%d' % (a, i)] for i in range(3)] for a in range(nat)])
    if w['box'] == 'ortho':
        B = np.diag([v['L0'], v['L1'], v['L2']])
    elif w['box'] == 'triu':
        B = np.array([[v['Ba'], v['Bb'], v['Bd']], [0, v['Bc'], v['Be']], [0, 0, v['Bf']]])
    else:
        B = np.array([[v['Ba'], 0, 0], [v['Bb'], v['Bc'], 0], [v['Bd'], v['Be'], v['Bf']]])
    mk = lambda P: Residue([AtomGro([1, 'A', 'C%d' % a, a + 1, P[a][0], P[a][1], P[a][2]]) for a in range(len(P))])
    # The solver's witness identifies a box (and a pair of points) on which an intermediate identity of the real
    # code fails; the observable consequences are confirmed on that box with the witness pair and with a fixed set of
    # probe separations (fractions of the box vectors), all through the public API.
    probes = [np.zeros(3)] + [np.array(c) @ B for c in ((0.3, 0.0, 0.0), (0.0, 0.7, 0.0), (0.0, 0.0, 0.6), (0.45, 0.45, 0.45), (0.8, 0.2, 0.6),
                                                        (1.3, -0.4, 0.2), (-0.6, 2.2, 0.9), (0.1, 0.1, 2.6), (2.7, 1.6, -1.4))]
    shifts = [np.array([v.get('n%d' % i, 1 + i) for i in range(3)], dtype=float), np.array([1., 0, 0]), np.array([0., 1, 0]),
              np.array([0., 0, 1]), np.array([-2., 1, 3])]
    bad = []
    d = float('nan')
    mutated = w.get('kind') == 'mutated-box'
    for pr in probes:
        Yp = Y + pr
        rx, ry = mk(X), mk(Yp)
        arg = Yp[0] if w['arg'] == 'point' else ry
        with np.errstate(all='ignore'):
            if mutated:
                # history: a first call, then the same box array is rescaled in place, then the call under test
                Bm = B.copy()
                rx.distance_to(arg, box_vects=Bm)
                Bm *= v.get('scale', 1.5)
                d = rx.distance_to(arg, box_vects=Bm)
                Bq = Bm.copy()
                Bi = np.linalg.inv(B)
                rx.distance_to(arg, box_vects=Bi, inv=True)
                Bi /= v.get('scale', 1.5)
                d_inv = rx.distance_to(arg, box_vects=Bi, inv=True)
            else:
                Bq = B
                d = rx.distance_to(arg, box_vects=B.copy())
                d_inv = rx.distance_to(arg, box_vects=np.linalg.inv(B), inv=True)
            sep = Yp.mean(axis=0) - X.mean(axis=0)
            if not np.isfinite(d):
                bad.append('non-finite')
            if w['box'] == 'ortho':
                k0 = np.round(sep / np.diag(Bq))
                best = min(np.linalg.norm(sep - (k0 + np.array(n)) * np.diag(Bq)) for n in itertools.product((-1, 0, 1), repeat=3))
                if abs(d - best) > 1e-9 * max(1, best):
                    bad.append('not the minimum-image distance (got %.6g, minimum over images %.6g)' % (d, best))
            fresh = mk(X).distance_to(arg, box_vects=Bq.copy())
            if mutated and abs(d - fresh) > 1e-9 * max(1, abs(fresh)):
                bad.append('value after an in-place change of the box array differs from a fresh evaluation')
            d2 = ry.distance_to(X[0] if w['arg'] == 'point' else rx, box_vects=Bq.copy())
            if abs(d - d2) > 1e-9 * max(1, abs(d)):
                bad.append('not symmetric')
            frac = np.linalg.solve(Bq.T, sep)
            tie = np.any(np.abs(np.abs(frac - np.round(frac)) - 0.5) < 1e-6)
            for n in shifts:
                Ys = Yp + n @ Bq
                d3 = rx.distance_to(Ys[0] if w['arg'] == 'point' else mk(Ys), box_vects=Bq.copy())
                if not tie and abs(d - d3) > 1e-8 * max(1, abs(d)):
                    bad.append('changes under a lattice shift')
            if abs(d - d_inv) > 1e-9 * max(1, abs(d)):
                bad.append('inverse flag disagrees')
        if bad:
            break
    bad = sorted(set(bad))
    return {'reproduced': bool(bad), 'what': 'distance_to (%s box%s): %s' % (w['box'], ', box array changed in place between calls' if mutated else '', '; '.join(bad)),
            'detail': {'x': X.tolist(), 'y': Y.tolist(), 'box': B.tolist(), 'd': float(d)}}


def fallback_probes(case):
    """Concrete probe battery (used only when a changed distance_to can no longer be executed symbolically): fixed boxes of
    each kind, fixed separations, all checks of replay() through the public API."""
    records = []
    boxes = {'ortho': {'L0': [3, 1], 'L1': [5, 2], 'L2': [7, 4]},
             'tric': {'Ba': [3, 1], 'Bb': [1, 1], 'Bc': [5, 2], 'Bd': [-1, 2], 'Be': [3, 4], 'Bf': [2, 1]},
             'triu': {'Ba': [3, 1], 'Bb': [1, 1], 'Bc': [5, 2], 'Bd': [-1, 2], 'Be': [3, 4], 'Bf': [2, 1]}}
    for kind, bvals in boxes.items():
        for arg in ('point', 'residue'):
            nat = 1 if arg == 'point' else 2
            inputs = dict(bvals)
            for a in range(nat):
                for i in range(3):
                    inputs['x%d_%d' % (a, i)] = [1 + a + i, 4]
                    inputs['y%d_%d' % (a, i)] = [7 * (i + 1) + 3 * a, 8]
            w = {'kind': 'probe', 'box': kind, 'arg': arg, 'inputs': inputs}
            r = replay(w)
            rec = {'name': 'fallback probes (concrete): %s box, %s argument' % (kind, arg), 'status': 'sat' if r['reproduced'] else 'validated', 'secs': 0}
            if r['reproduced']:
                rec['witness'] = w
            records.append(rec)
    return records
