"""C15 - the topology reader yields exactly the file's atoms and bond graph; connectivity; independent copies.
Real ItpFile / read_topology / MoleculeTop / AtomTop / are_connected."""
import itertools
import z3

ID = 'C15'
FUNCTIONS = ['gaddlemaps.parsers._top_parsers:_itp_top_atoms', 'gaddlemaps.parsers._top_parsers:_parse_itp_bonds', 'gaddlemaps.parsers._top_parsers:_itp_top_name',
             'gaddlemaps.parsers._top_parsers:read_topology', 'gaddlemaps.components._components_top:MoleculeTop.__init__',
             'gaddlemaps.components._components_top:AtomTop.connect', 'gaddlemaps.components._components_top:MoleculeTop.copy',
             'gaddlemaps.components._components_top:AtomTop.copy', 'gaddlemaps.components:are_connected', 'gaddlemaps.components:_find_connected_atoms']
EXPLANATION = ('Graphs: every edge of a graph on <= 5 atoms is a symbolic choice (z3 integer bit, solver-enumerated): the topology text is '
               'generated with non-contiguous atom numbers, bonds spread over the bonds / constraints / pairs sections, interleaved comments, '
               'blank and preprocessor lines, read by the real reader from an in-memory file, and the resulting name, atoms, symmetric bond '
               'sets, are_connected (oracle: breadth-first closure) and copy independence are checked on every path.  Stack depth: the nesting '
               'depth of the connectivity walk is measured on chains / stars of 2..6 atoms and must not grow with the graph (obligation '
               'depth(n) <= depth(2)+1); a violation is replayed on a 3000-atom chain.  CrossHair: symbolic atom numbers with gaps and '
               'symbolic bond endpoints through the real text reader.')
BOUNDS = {'quick': {'graphs': 'all 1 + 2 + 8 + 64 graphs on 1..4 atoms, 200 of the 1024 on 5 atoms (solver-chosen)', 'chains': '2..6 atoms', 'crosshair': '3 atoms, 60 s'},
          'thorough': {'graphs': 'all graphs on <= 5 atoms (1099)', 'crosshair': '300 s'}}
OUTSIDE = ['topologies with thousands of atoms symbolically (the recursion depth obligation is checked on small graphs and replayed at 3000)',
           'files with several [ moleculetype ] blocks']
STUBS = ['in-memory text file for reading']
ASSUMPTIONS = ['atom numbers in the file are distinct']
CASE_TIMEOUT = {'quick': 600, 'thorough': 2400}


def cases(tier):
    cs = []
    for n in (1, 2, 3, 4, 5):
        cs.append({'name': 'graphs/n%d' % n, 'n': n, 'limit': None if (n < 5 or tier == 'thorough') else 200})
    cs.append({'name': 'stack-depth'})
    cs.append({'name': 'crosshair/numbering_and_bonds', 'fn': 'numbering_and_bonds', 'budget': 60 if tier == 'quick' else 300})
    return cs


def topology_text(n, edges, numbering=None):
    nums = numbering or [3 * i + 2 for i in range(n)]
    t = '; test topology\n#define SOMETHING\n\n[ moleculetype ]\n; name  nrexcl\nGEN  3 ; the molecule\n\n[ atoms ]\n; nr type resnr resid atom cgnr charge\n'
    for i in range(n):
        t += '%5d   T%d  %d   RS%d   AT%d   %d   0.000 ; c%d\n' % (nums[i], i, 1 + i // 2, i // 2, i, nums[i], i)
        if i == 0:
            t += '\n#ifdef HEAVY\n;   99 X 9 RS9 AT9 9 0.0\n#endif\n'
    secs = {'bonds': [], 'constraints': [], 'pairs': []}
    for (a, b) in edges:
        secs[['bonds', 'constraints', 'pairs'][(a + b) % 3]].append((a, b))
    for k in ('pairs', 'bonds', 'constraints'):
        if secs[k] or k == 'bonds':
            t += '\n[ %s ]\n;  ai  aj funct\n' % k
            for a, b in secs[k]:
                t += '%d\t%d   1  0.47 1250 ; b\n' % (nums[a], nums[b])
            t += '\n'
    t += '[ angles ]\n; i j k\n'
    return t


def _bfs_connected(n, edges):
    adj = {i: set() for i in range(n)}
    for a, b in edges:
        adj[a].add(b); adj[b].add(a)
    seen, st = {0}, [0]
    while st:
        x = st.pop()
        for y in adj[x]:
            if y not in seen:
                seen.add(y); st.append(y)
    return len(seen) == n


def check_graph(n, edges, numbering=None):
    """-> list of problems (empty if the property holds for this file)"""
    try:
        return _check_graph(n, edges, numbering)
    except Exception as e:            # a failure of the real reader on a well-formed file is a finding
        return ['%s: %s' % (type(e).__name__, str(e)[:100])]


def _check_graph(n, edges, numbering=None):
    from symx.files import MemFile
    from gaddlemaps.components import MoleculeTop, are_connected
    problems = []
    # a topology with the same atom numbers in other positions is loaded first: any number->position table that survives
    # between loads would translate the bonds of the file under test through stale entries
    if n >= 2 and numbering is None:
        decoy_nums = [3 * i + 2 for i in range(n)]
        decoy_nums = [decoy_nums[0]] + [decoy_nums[0] + 1] + decoy_nums[1:n - 1] if n > 2 else [decoy_nums[1], decoy_nums[1] + 7]
        try:
            MoleculeTop(MemFile(topology_text(n, [(0, 1)], sorted(decoy_nums)), 'decoy.itp'))
        except Exception:
            pass
    top = MoleculeTop(MemFile(topology_text(n, edges, numbering), 'gen.itp'))
    if top.name != 'GEN':
        problems.append('molecule name %r' % top.name)
    got = [(a.name, a.resname, a.resid) for a in top]
    want = [('AT%d' % i, 'RS%d' % (i // 2), 1 + i // 2) for i in range(n)]
    if got != want:
        problems.append('atoms %r instead of %r' % (got[:3], want[:3]))
    adj = {i: set() for i in range(n)}
    for a, b in edges:
        adj[a].add(b); adj[b].add(a)
    if [set(a.bonds) for a in top] != [adj[i] for i in range(n)]:
        problems.append('bond sets %r instead of %r' % ([sorted(a.bonds) for a in top], [sorted(adj[i]) for i in range(n)]))
    try:
        conn = are_connected(top.atoms)
        if conn != _bfs_connected(n, edges):
            problems.append('are_connected = %r for a graph that is %sconnected' % (conn, '' if _bfs_connected(n, edges) else 'not '))
    except RecursionError:
        problems.append('are_connected raised RecursionError')
    cp = top.copy()
    if cp != top or cp is top or any(x is y for x, y in zip(cp, top)):
        problems.append('copy not equal / not a distinct object')
    if n >= 2:
        cp[0].bonds.add(n - 1); cp[0].name = 'ZZ'
        if [set(a.bonds) for a in top] != [adj[i] for i in range(n)] or top[0].name != 'AT0':
            problems.append('changing the copy changed the original')
    # history variant: a topology that has been edited since it was loaded is copied - the copy equals what it is now
    cp[-1].resname = 'EDT'; cp[-1].resid = 77
    if n >= 3:
        cp[1].connect(cp[n - 1])
    cp2 = cp.copy()
    state = lambda t: [(a.name, a.resname, a.resid, sorted(a.bonds)) for a in t]
    if state(cp2) != state(cp) or cp2 != cp:
        problems.append('copy of a topology edited after loading differs from it: %r vs %r' % (state(cp2)[:3], state(cp)[:3]))
    cp2[0].name = 'YY'
    if cp[0].name == 'YY':
        problems.append('changing the copy of an edited topology changed it')
    return problems


def _depth_of_are_connected(atoms):
    import sys
    import gaddlemaps.components as comp
    fname = comp.__file__
    depth = {'cur': 0, 'max': 0}

    def prof(frame, event, arg):
        if frame.f_code.co_filename == fname:
            if event == 'call':
                depth['cur'] += 1
                depth['max'] = max(depth['max'], depth['cur'])
            elif event == 'return':
                depth['cur'] -= 1
    sys.setprofile(prof)
    try:
        comp.are_connected(atoms)
    finally:
        sys.setprofile(None)
    return depth['max']


def run_case(case):
    nm = case['name']
    if nm.startswith('crosshair/'):
        from symx.chrun import run_crosshair
        return run_crosshair('chx/c15.py', case['fn'], case['budget'], kind='c15')
    records, samples, nontrivial = [], [], []
    if nm == 'stack-depth':
        from symx.mol import make_top
        depths = {}
        for shape in ('chain', 'star', 'chain-shuffled'):
            for n in range(2, 7):
                if shape == 'chain':
                    edges = [(i, i + 1) for i in range(n - 1)]
                elif shape == 'star':
                    edges = [(0, i) for i in range(1, n)]
                else:
                    order = list(range(0, n, 2)) + list(range(1, n, 2))
                    edges = [(min(order[i], order[i + 1]), max(order[i], order[i + 1])) for i in range(n - 1)]
                top = make_top('G', [('A%d' % i, 'R', 1) for i in range(n)], edges)
                depths[(shape, n)] = _depth_of_are_connected(top.atoms)
            base = depths[(shape, 2)]
            worst = max(range(2, 7), key=lambda n: depths[(shape, n)])
            ok = depths[(shape, worst)] <= base + 1
            rec = {'name': '%s graphs of 2..6 atoms: nesting depth of the connectivity walk %s does not grow with the graph' % (shape, [depths[(shape, n)] for n in range(2, 7)]),
                   'status': 'unsat' if ok else 'sat', 'secs': 0}
            if not ok:
                rec['witness'] = {'kind': 'depth', 'shape': shape, 'n': worst, 'depths': [depths[(shape, n)] for n in range(2, 7)]}
            records.append(rec)
            nontrivial.append(shape)
        samples.append({'depths': {('%s-%d' % k): v for k, v in depths.items()}})
        return {'records': records, 'paths': len(depths), 'queries': 0, 'solver_s': 0, 'samples': samples, 'nontrivial': nontrivial}
    from symx.core import explore, SymInt
    n = case['n']
    pairs = list(itertools.combinations(range(n), 2))
    ev = [z3.Int('e%d_%d' % p) for p in pairs]
    bad = None
    cover = []
    paths = 0

    def run(ctx):
        edges = []
        for v, p in zip(ev, pairs):
            ctx.assume(z3.And(v >= 0, v <= 1))
            if SymInt(v, 0, 1).concretize():
                edges.append(p)
        return edges
    try:
        for ctx, res, exc in explore(run, max_paths=case['limit'] or 5000):
            paths += 1
            cover.append(z3.And(*ctx.pc) if ctx.pc else z3.BoolVal(True))
            problems = check_graph(n, res)
            if problems and bad is None:
                bad = {'n': n, 'edges': [list(e) for e in res], 'problems': problems[:3]}
            if len(samples) < 2:
                samples.append({'n': n, 'edges': res})
    except BaseException as e:    # path budget reached (quick tier, n = 5): the explored subset is reported
        if type(e).__name__ != 'Budget':
            raise
    rec = {'name': 'all %d explored graphs on %d atoms: name, atoms, renumbered symmetric bonds from three sections, are_connected, copy' % (paths, n),
           'status': 'unsat' if bad is None else 'sat', 'secs': 0}
    if bad:
        rec['witness'] = {'kind': 'graph', **bad}
    records.append(rec)
    nontrivial.append('n%d' % n)
    if case['limit'] is None:
        s = z3.Solver(); s.set('timeout', 60000)
        s.add(*[z3.And(v >= 0, v <= 1) for v in ev]); s.add(z3.Not(z3.Or(*cover)) if cover else z3.BoolVal(True))
        r = str(s.check()) if pairs else 'unsat'
        records.append({'name': 'explored paths exhaust all %d edge subsets' % (2 ** len(pairs)), 'status': 'unsat' if r == 'unsat' else 'unknown', 'secs': 0})
    # other numberings of the same atoms (decreasing gaps, large numbers)
    for numbering in ([100 - 7 * i for i in range(n)][::-1], [1000 * (i + 1) for i in range(n)]):
        edges = [(i, i + 1) for i in range(n - 1)]
        problems = check_graph(n, edges, sorted(numbering))
        records.append({'name': 'chain on %d atoms numbered %s' % (n, sorted(numbering)), 'status': 'unsat' if not problems else 'sat', 'secs': 0,
                        'witness': None if not problems else {'kind': 'graph', 'n': n, 'edges': [list(e) for e in edges], 'numbering': sorted(numbering), 'problems': problems}})
    records.append({'name': 'reachability-twin', 'status': 'twin', 'secs': 0})
    return {'records': records, 'paths': paths, 'queries': 1, 'solver_s': 0, 'samples': samples, 'nontrivial': nontrivial}


def replay(w):
    if w['kind'] == 'c15':
        from symx.chrun import replay_crosshair
        return replay_crosshair(w)
    if w['kind'] == 'depth':
        # scale the witness: the same graph family with 3000 atoms, through a real file on disk
        import os
        import tempfile
        from gaddlemaps.components import MoleculeTop, are_connected
        n = 3000
        if w['shape'] == 'star':
            edges = [(0, i) for i in range(1, n)]
        else:
            edges = [(i, i + 1) for i in range(n - 1)]
        d = tempfile.mkdtemp(prefix='c15-')
        p = os.path.join(d, 'big.itp')
        open(p, 'w').write(topology_text(n, edges, list(range(1, n + 1))))
        try:
            top = MoleculeTop(p)
            try:
                ok = are_connected(top.atoms)
                bad = [] if ok else ['connected 3000-atom %s reported as not connected' % w['shape']]
            except RecursionError:
                bad = ['RecursionError on a %d-atom %s (walk depth grows with the graph: %s for 2..6 atoms)' % (n, w['shape'], w['depths'])]
        finally:
            os.remove(p); os.rmdir(d)
        return {'reproduced': bool(bad), 'what': 'are_connected: ' + '; '.join(bad), 'detail': {}}
    problems = check_graph(w['n'], [tuple(e) for e in w['edges']], w.get('numbering'))
    return {'reproduced': bool(problems), 'what': 'topology with %d atoms, bonds %s: %s' % (w['n'], w['edges'], '; '.join(problems)[:300]), 'detail': {}}
