"""C18 - copies are isolated, views write through, rigid operations preserve shape.
Real AtomGro / Residue / Molecule / Atom / Alignment on symbolic coordinates, velocities, displacement and rotation;
all operation sequences within the bound."""
import itertools
import numpy as np
import z3

ID = 'C18'
FUNCTIONS = ['gaddlemaps.components._components:Molecule.__init__', 'gaddlemaps.components._components:Molecule.copy', 'gaddlemaps.components._components:Molecule.deep_copy',
             'gaddlemaps.components._components:Molecule.__getitem__', 'gaddlemaps.components._components:Molecule.__iter__', 'gaddlemaps.components._components:Atom.__setattr__',
             'gaddlemaps.components._components:Atom.copy', 'gaddlemaps.components._components:Molecule.atoms_positions', 'gaddlemaps.components._components:Molecule.resids',
             'gaddlemaps.components._residue:Residue.copy', 'gaddlemaps.components._residue:Residue.atoms', 'gaddlemaps.components._residue:AtomGro.copy',
             'gaddlemaps.components._residue:Residue.move', 'gaddlemaps.components._residue:Residue.move_to', 'gaddlemaps.components._residue:Residue.rotate',
             'gaddlemaps.components._residue:Residue.atoms_positions', 'gaddlemaps.components._residue:Residue.atoms_velocities', 'gaddlemaps.components._residue:Residue.atoms_ids',
             'gaddlemaps._alignment:Alignment.start']
EXPLANATION = ('Every sequence of up to 3 (quick) / 4 (thorough) operations over {move, move_to, rotate, read the geometric centre, set positions, set velocities, set atom '
               'ids, set residue numbers, set residue names, assign through an indexed atom view, assign through an iterated atom view, make an atom of each side refer to the same coordinate vector} is applied to one '
               'side of an (original, copy) pair built with every copy route (Molecule.copy / deep_copy, Residue.copy, AtomGro.copy, Atom.copy, '
               'Alignment.start on first assignment and on re-assignment of a complete alignment, Alignment.end on re-assignment), in both directions; all coordinates, velocities, the displacement, the target point and '
               'the rotation (elementary rotation (c,s) with c^2+s^2=1) are symbolic.  After every operation the untouched side must still carry '
               'its initial symbolic terms / numbers (isolation), a view assignment must be visible in the molecule, and for the rigid operations '
               'the SMT obligations are: positions = old + d (move), centre = requested point (move_to), all pairwise squared distances and the '
               'centre preserved (rotate), a three-residue molecule (2+2+1 atoms) rotated about the centre of the whole molecule.')
BOUNDS = {'quick': {'sequences': 'all of length <= 3 over 12 operations (1884) x 9 copy routes x 2 directions', 'objects': '1-residue (2 atoms) and 3-residue (2+2+1 atoms) molecules, a residue, an atom'},
          'thorough': {'sequences': 'all of length <= 4 (22620)'}}
OUTSIDE = ['sequences of length up to 40 (no operation keeps hidden state: each operation is checked from the state left by all shorter prefixes)', 'binary64 rounding',
           'rotations are elementary ones about x, y, z (generators of SO(3))']
STUBS = ['molecules built directly with the real classes']
ASSUMPTIONS = ['c^2 + s^2 = 1 for the rotation', 'exact real arithmetic']
CASE_TIMEOUT = {'quick': 900, 'thorough': 3000}

OPS = ['move', 'move_to', 'rotate', 'set_pos', 'set_vel', 'set_ids', 'set_resids', 'set_resnames', 'view_index', 'view_iter', 'read_centre', 'share_vec']
ROUTES = ['mol.copy', 'mol.deep_copy', 'mol2.copy', 'mol2.deep_copy', 'residue.copy', 'atomgro.copy', 'alignment.start', 'alignment.restart', 'alignment.reend']


def _atoms_for(two):
    """one residue of 2 atoms, or three residues of 2 + 2 + 1 atoms (a one-atom residue inside a multi-residue molecule)"""
    if not two:
        return 2, [('C0', 'RA', 1), ('C1', 'RA', 1)]
    return 5, [('C0', 'RA', 1), ('C1', 'RA', 1), ('C2', 'RB', 2), ('C3', 'RB', 2), ('C4', 'RC', 3)]


def cases(tier):
    L = 3 if tier == 'quick' else 4
    seqs = [list(s) for l in range(1, L + 1) for s in itertools.product(OPS, repeat=l)]
    cs = []
    for route in ROUTES:
        for direction in ('op-on-copy', 'op-on-original'):
            for i in range(0, len(seqs), 1200):
                cs.append({'name': '%s/%s/%d' % (route, direction, i), 'route': route, 'dir': direction, 'seqs': seqs[i:i + 1200]})
    return cs


def run_case(case):
    from symx.core import SymReal, expr, Ctx, concretize_inputs
    from symx import npx
    from symx.mol import make_molecule, make_top, make_residues
    npx.install()
    from gaddlemaps import Alignment
    from gaddlemaps.components import Residue, AtomGro, Molecule
    cap = 60000
    records, samples, nontrivial = [], [], []
    route, direction = case['route'], case['dir']
    counter = [0]
    tot = {'q': 0, 's': 0.0}

    def fresh(n, tag):
        counter[0] += 1
        return np.array([[SymReal(z3.Real('%s%d_%d_%d' % (tag, counter[0], i, k))) for k in range(3)] for i in range(n)], dtype=object)

    def build():
        two = route.startswith('mol2')
        n, atoms = _atoms_for(two)
        X, Vv = fresh(n, 'x'), fresh(n, 'v')
        mol = make_molecule('MOL', atoms, [(i, i + 1) for i in range(n - 1)], X, velocities=Vv)
        if route in ('mol.copy', 'mol2.copy'):
            return mol, mol.copy(), 'molecule'
        if route in ('mol.deep_copy', 'mol2.deep_copy'):
            return mol, mol.deep_copy(), 'molecule-deep'
        if route == 'alignment.start':
            ali = Alignment(start=mol)
            return mol, ali.start, 'molecule'
        if route in ('alignment.restart', 'alignment.reend'):
            # a complete alignment whose start / end is assigned again with another conformation of the same species
            other = make_molecule('MOL', atoms, [(i, i + 1) for i in range(n - 1)], fresh(n, 'o'), velocities=fresh(n, 'ov'))
            partner = make_molecule('PAR', [('P%d' % i, 'RP', 1) for i in range(3)], [(0, 1), (1, 2)], fresh(3, 'q'))
            if route == 'alignment.restart':
                ali = Alignment(mol, partner)
                ali.start = other
                return other, ali.start, 'molecule'
            ali = Alignment(partner, mol)
            ali.end = other
            return other, ali.end, 'molecule'
        if route == 'residue.copy':
            res = make_residues(atoms, X, velocities=Vv)[0]
            return res, res.copy(), 'residue'
        if route == 'atomgro.copy':
            a = AtomGro([1, 'RA', 'C0', 1, X[0][0], X[0][1], X[0][2], Vv[0][0], Vv[0][1], Vv[0][2]])
            return a, a.copy(), 'atomgro'
        raise KeyError(route)

    def snapshot(obj, kind):
        if kind == 'atomgro':
            return {'pos': [expr(c) for c in obj.position], 'vel': [expr(c) for c in obj.velocity], 'id': obj.atomid, 'resid': obj.resid, 'resname': obj.resname, 'name': obj.name}
        snap = {'pos': [[expr(c) for c in row] for row in obj.atoms_positions],
                'vel': None if obj.atoms_velocities is None else [[expr(c) for c in row] for row in obj.atoms_velocities],
                'ids': list(obj.atoms_ids)}
        if kind.startswith('molecule'):
            snap['resids'] = list(obj.resids)
            if kind == 'molecule-deep':
                snap['resnames'] = list(obj.resnames)
                snap['names'] = [a.name for a in obj]
        else:
            snap['resid'] = obj.resid
        return snap

    def same(a, b):
        if isinstance(a, dict):
            return all(same(a[k], b[k]) for k in a)
        if isinstance(a, list):
            return len(a) == len(b) and all(same(x, y) for x, y in zip(a, b))
        if isinstance(a, z3.ExprRef):
            return z3.eq(z3.simplify(a), z3.simplify(b))
        return a == b

    cth, sth = z3.Real('c'), z3.Real('s')
    ROT = {'x': [[1, 0, 0], [0, cth, -sth], [0, sth, cth]], 'y': [[cth, 0, sth], [0, 1, 0], [-sth, 0, cth]], 'z': [[cth, -sth, 0], [sth, cth, 0], [0, 0, 1]]}

    def prove(ctx, tag, claim, seq):
        r, secs, m = ctx.prove(claim, cap)
        rec = {'name': tag, 'status': r, 'secs': secs}
        if r == 'sat':
            rec['witness'] = {'kind': 'ops', 'route': route, 'dir': direction, 'seq': seq, 'what': tag}
        records.append(rec)

    for seq in case['seqs']:
        ctx = Ctx(); Ctx.cur = ctx
        ctx.assume(cth * cth + sth * sth == 1)
        orig, cp, kind = build()
        T, P = (cp, orig) if direction == 'op-on-copy' else (orig, cp)
        p0 = snapshot(P, kind)
        problems = []
        for step, op in enumerate(seq):
            tagp = '%s %s, sequence %s step %d (%s)' % (route, direction, seq, step, op)
            if kind == 'atomgro':
                # an atom has no rigid-body operations: assignments only
                if op == 'share_vec':
                    T.position = P.position
                elif op in ('move', 'move_to', 'rotate', 'set_pos', 'view_index', 'view_iter'):
                    T.position = fresh(1, 'np')[0]
                elif op == 'set_vel':
                    T.velocity = fresh(1, 'nv')[0]
                elif op == 'set_ids':
                    T.atomid = 77 + step
                elif op == 'set_resids':
                    T.resid = 55 + step
                else:
                    T.resname = 'ZZ%d' % step
            else:
                n = len(T)
                before = [[expr(c) for c in row] for row in T.atoms_positions]
                com0 = [sum(before[i][k] for i in range(n)) / n for k in range(3)]
                if op == 'move':
                    d = fresh(1, 'd')[0]
                    T.move(d)
                    after = T.atoms_positions
                    prove(ctx, tagp + ': every atom displaced by exactly d', z3.And(*[expr(after[i][k]) == before[i][k] + expr(d[k]) for i in range(n) for k in range(3)]), seq)
                elif op == 'move_to':
                    pt = fresh(1, 'p')[0]
                    T.move_to(pt)
                    after = T.atoms_positions
                    prove(ctx, tagp + ': geometric centre at the requested point, shape kept',
                          z3.And(*[sum(expr(after[i][k]) for i in range(n)) / n == expr(pt[k]) for k in range(3)] +
                                 [expr(after[i][k]) - expr(after[0][k]) == before[i][k] - before[0][k] for i in range(n) for k in range(3)]), seq)
                elif op == 'rotate':
                    ax = 'xyz'[step % 3]
                    Rm = np.array([[SymReal(v) if isinstance(v, z3.ExprRef) else v for v in row] for row in ROT[ax]], dtype=object)
                    T.rotate(Rm)
                    after = T.atoms_positions
                    dist = z3.And(*[sum((expr(after[i][k]) - expr(after[j][k])) ** 2 for k in range(3)) == sum((before[i][k] - before[j][k]) ** 2 for k in range(3))
                                    for i in range(n) for j in range(i)])
                    com = z3.And(*[sum(expr(after[i][k]) for i in range(n)) / n == com0[k] for k in range(3)])
                    whole = z3.And(*[expr(after[i][k]) == com0[k] + sum((ROT[ax][k][q] if not isinstance(ROT[ax][k][q], int) else z3.RealVal(ROT[ax][k][q])) * (before[i][q] - com0[q]) for q in range(3))
                                     for i in range(n) for k in range(3)])
                    prove(ctx, tagp + ': pairwise distances and centre preserved; rotation about the centre of the whole object', z3.And(dist, com, whole), seq)
                elif op == 'set_pos':
                    T.atoms_positions = fresh(n, 'np')
                elif op == 'set_vel':
                    T.atoms_velocities = fresh(n, 'nv')
                elif op == 'set_ids':
                    T.atoms_ids = [100 + step * 10 + i for i in range(n)]
                elif op == 'set_resids':
                    if kind.startswith('molecule'):
                        T.resids = [40 + step * 5 + i for i in range(len(T.resids))]
                    else:
                        T.resid = 40 + step
                elif op == 'set_resnames':
                    if kind.startswith('molecule'):
                        if kind == 'molecule-deep':
                            T.resnames = ['N%d%d' % (step, i) for i in range(len(T.resnames))]
                    else:
                        T.resname = 'Q%d' % step
                elif op == 'read_centre':
                    cen = T.geometric_center
                    cxyz = (T.x, T.y, T.z)
                    if not all(z3.eq(z3.simplify(expr(cen[k])), z3.simplify(com0[k])) and z3.eq(z3.simplify(expr(cxyz[k])), z3.simplify(com0[k])) for k in range(3)):
                        prove(ctx, tagp + ': geometric centre = mean of the current positions', z3.And(*[expr(cen[k]) == com0[k] for k in range(3)] + [expr(cxyz[k]) == com0[k] for k in range(3)]), seq)
                elif op == 'share_vec':
                    # a legal assignment that makes an atom of each side refer to the very same coordinate vector (the
                    # values of the untouched side do not change): later operations must still not leak through it
                    T[0].position = P[0].position
                    if not all(z3.eq(expr(a), expr(b)) for a, b in zip(T.atoms_positions[0], P.atoms_positions[0])):
                        problems.append('step %d: assigning a position vector through the atom view is not visible' % step)
                elif op in ('view_index', 'view_iter'):
                    newp = fresh(1, 'vp')[0]
                    atom = T[n - 1] if op == 'view_index' else list(T)[n - 1]
                    atom.position = newp
                    seen = T.atoms_positions[n - 1]
                    if not all(z3.eq(expr(a), expr(b)) for a, b in zip(seen, newp)):
                        problems.append('step %d: assignment through the atom view (%s) is not visible in the %s' % (step, op, kind))
            if not same(snapshot(P, kind), p0):
                problems.append('step %d (%s) changed the untouched %s' % (step, op, 'original' if direction == 'op-on-copy' else 'copy'))
                break
        nontrivial.append(str(seq))
        tot['q'] += ctx.queries; tot['s'] += ctx.solver_time
        rec = {'name': '%s %s, sequence %s: untouched side keeps coordinates, velocities, numbers%s; view assignments write through' % (
            route, direction, seq, ', names' if kind == 'molecule-deep' else ''), 'status': 'unsat' if not problems else 'sat', 'secs': 0}
        if problems:
            rec['witness'] = {'kind': 'ops', 'route': route, 'dir': direction, 'seq': seq, 'what': '; '.join(problems)}
        records.append(rec)
        if len(samples) < 2:
            samples.append({'route': route, 'direction': direction, 'sequence': seq})
    records.append({'name': 'reachability-twin', 'status': 'twin', 'secs': 0})
    return {'records': records, 'paths': len(case['seqs']), 'queries': tot['q'], 'solver_s': tot['s'], 'samples': samples, 'nontrivial': nontrivial}


def replay(w):
    """Concrete re-run of the same operation sequence with numeric values."""
    from symx.mol import make_molecule, make_residues
    from gaddlemaps import Alignment, rotation_matrix
    from gaddlemaps.components import AtomGro
    route, direction, seq = w['route'], w['dir'], w['seq']
    rs = np.random.RandomState(3)
    two = route.startswith('mol2')
    n, atoms = _atoms_for(two)
    X, Vv = rs.uniform(-2, 2, (n, 3)), rs.uniform(-1, 1, (n, 3))
    mol = make_molecule('MOL', atoms, [(i, i + 1) for i in range(n - 1)], X, velocities=Vv)
    kind = 'molecule'
    if route in ('mol.copy', 'mol2.copy'):
        orig, cp = mol, mol.copy()
    elif route in ('mol.deep_copy', 'mol2.deep_copy'):
        orig, cp, kind = mol, mol.deep_copy(), 'molecule-deep'
    elif route == 'alignment.start':
        orig, cp = mol, Alignment(start=mol).start
    elif route in ('alignment.restart', 'alignment.reend'):
        other = make_molecule('MOL', atoms, [(i, i + 1) for i in range(n - 1)], rs.uniform(-2, 2, (n, 3)), velocities=rs.uniform(-1, 1, (n, 3)))
        partner = make_molecule('PAR', [('P%d' % i, 'RP', 1) for i in range(3)], [(0, 1), (1, 2)], rs.uniform(-2, 2, (3, 3)))
        if route == 'alignment.restart':
            ali = Alignment(mol, partner); ali.start = other; orig, cp = other, ali.start
        else:
            ali = Alignment(partner, mol); ali.end = other; orig, cp = other, ali.end
    elif route == 'residue.copy':
        res = make_residues(atoms, X, velocities=Vv)[0]
        orig, cp, kind = res, res.copy(), 'residue'
    else:
        a = AtomGro([1, 'RA', 'C0', 1] + list(X[0]) + list(Vv[0]))
        orig, cp, kind = a, a.copy(), 'atomgro'
    T, P = (cp, orig) if direction == 'op-on-copy' else (orig, cp)

    def snap(o):
        if kind == 'atomgro':
            return (o.position.copy(), o.velocity.copy(), o.atomid, o.resid, o.resname)
        s = [o.atoms_positions.copy(), o.atoms_velocities.copy(), list(o.atoms_ids)]
        if kind.startswith('molecule'):
            s.append(list(o.resids))
            if kind == 'molecule-deep':
                s += [list(o.resnames), [a.name for a in o]]
        else:
            s.append(o.resid)
        return s

    def eq(a, b):
        return all((np.array_equal(x, y) if isinstance(x, np.ndarray) else x == y) for x, y in zip(a, b))
    p0 = snap(P)
    bad = []
    for step, op in enumerate(seq):
        if kind == 'atomgro':
            if op == 'share_vec':
                T.position = P.position
            elif op in ('move', 'move_to', 'rotate', 'set_pos', 'view_index', 'view_iter'):
                T.position = rs.uniform(-1, 1, 3)
            elif op == 'set_vel':
                T.velocity = rs.uniform(-1, 1, 3)
            elif op == 'set_ids':
                T.atomid = 77
            elif op == 'set_resids':
                T.resid = 55
            else:
                T.resname = 'ZZ'
        else:
            m_ = len(T)
            before = T.atoms_positions.copy()
            if op == 'move':
                d = rs.uniform(-1, 1, 3); T.move(d)
                if np.abs(T.atoms_positions - (before + d)).max() > 1e-9: bad.append('move does not displace every atom by d')
            elif op == 'move_to':
                pt = rs.uniform(-1, 1, 3); T.move_to(pt)
                if np.abs(T.atoms_positions.mean(axis=0) - pt).max() > 1e-9: bad.append('move_to misses the requested point')
            elif op == 'rotate':
                R = rotation_matrix(rs.uniform(-1, 1, 3), 0.7); T.rotate(R)
                A = T.atoms_positions
                if np.abs(A.mean(axis=0) - before.mean(axis=0)).max() > 1e-9: bad.append('rotation moves the centre')
                if any(abs(np.linalg.norm(A[i] - A[j]) - np.linalg.norm(before[i] - before[j])) > 1e-9 for i in range(m_) for j in range(i)):
                    bad.append('rotation changes interatomic distances (object not rotated as one body)')
            elif op == 'read_centre':
                if np.abs(T.geometric_center - before.mean(axis=0)).max() > 1e-9 or abs(T.x - before.mean(axis=0)[0]) > 1e-9:
                    bad.append('geometric centre is not the mean of the current positions')
            elif op == 'set_pos':
                T.atoms_positions = rs.uniform(-1, 1, (m_, 3))
            elif op == 'set_vel':
                T.atoms_velocities = rs.uniform(-1, 1, (m_, 3))
            elif op == 'set_ids':
                T.atoms_ids = [100 + i for i in range(m_)]
            elif op == 'set_resids':
                if kind.startswith('molecule'):
                    T.resids = [40 + i for i in range(len(T.resids))]
                else:
                    T.resid = 40
            elif op == 'set_resnames':
                if kind == 'molecule-deep':
                    T.resnames = ['N%d' % i for i in range(len(T.resnames))]
                elif kind == 'residue':
                    T.resname = 'Q'
            elif op == 'share_vec':
                T[0].position = P[0].position
            else:
                newp = rs.uniform(-1, 1, 3)
                atom = T[m_ - 1] if op == 'view_index' else list(T)[m_ - 1]
                atom.position = newp
                if np.abs(T.atoms_positions[m_ - 1] - newp).max() > 0: bad.append('assignment through an atom view is not visible in the object')
        if not eq(snap(P), p0):
            bad.append('%s on the %s changed the %s' % (op, 'copy' if direction == 'op-on-copy' else 'original', 'original' if direction == 'op-on-copy' else 'copy'))
            break
    return {'reproduced': bool(bad), 'what': 'copy route %s, operations %s: %s' % (route, seq, '; '.join(sorted(set(bad)))), 'detail': {}}
