#!/bin/sh
# Build the overlay interpreter used by every check: /venv's python + site-packages
# (numpy, scipy, more_itertools, editable gaddlemaps from /repo) plus z3-solver, cvc5 and
# crosshair-tool from the offline wheelhouse.  Idempotent.  No network.
set -e
HERE="$(cd "$(dirname "$0")" && pwd)"
V="$HERE/.venv"
if [ -x "$V/bin/python" ] && "$V/bin/python" -c "import z3, crosshair, numpy, gaddlemaps" 2>/dev/null; then
    exit 0
fi
rm -rf "$V"
/venv/bin/python -m venv "$V"
SP="$("$V/bin/python" -c 'import sysconfig; print(sysconfig.get_paths()["purelib"])')"
printf '%s\n' "import site; site.addsitedir('/venv/lib/python3.12/site-packages')" > "$SP/zz_venv_overlay.pth"
PIP_NO_INDEX=1 "$V/bin/python" -m pip install --quiet --no-index --find-links /opt/veriftools/wheels z3-solver crosshair-tool cvc5 >/dev/null 2>&1 || \
PIP_NO_INDEX=1 "$V/bin/python" -m pip install --no-index --find-links /opt/veriftools/wheels z3-solver crosshair-tool
"$V/bin/python" -c "import z3, crosshair, numpy, scipy, gaddlemaps; print('overlay ok', z3.get_version_string(), gaddlemaps.__file__)"
