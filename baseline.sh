#!/bin/sh
# Runs the repository's pinned test suite with the verification guard OFF and compares with
# /root/.vp/BASELINE.json (every stable_pass test must pass).
unset TXEMAOTERO_GADDLEMAPS_VERIF
OUT="$(mktemp -d)"
cd /repo && /venv/bin/python -m pytest -ra -q -p no:cacheprovider --timeout=900 --continue-on-collection-errors --junitxml="$OUT/junit.xml" >"$OUT/log" 2>&1
/venv/bin/python - "$OUT/junit.xml" <<'PY'
import sys, json, xml.etree.ElementTree as ET
base = json.load(open('/root/.vp/BASELINE.json'))
ok = set()
for tc in ET.parse(sys.argv[1]).getroot().iter('testcase'):
    bad = [c.tag for c in tc if c.tag in ('failure', 'error', 'skipped')]
    name = tc.get('classname') + '::' + tc.get('name')
    if not bad:
        ok.add(name)
missing = [t for t in base['stable_pass'] if t not in ok]
print('baseline: %d/%d stable tests pass' % (len(base['stable_pass']) - len(missing), len(base['stable_pass'])))
for m in missing: print('  NOT PASSING:', m)
sys.exit(1 if missing else 0)
PY
RC=$?
rm -rf "$OUT"
exit $RC
