"""In-memory file models for the real GroFile / ItpFile (both officially accept an already opened file).

MemFile      concrete text, behaves like an opened text file in read mode (name, mode, readline, seek, tell, iteration)
SymEOFFile   concrete text with a *symbolic end of file* t (SymInt): every read forks only on how t compares with
             the positions the reader actually looks at, so all byte-level truncation points between two looks are one path
OpLogFile    wraps a real file object opened for writing and logs every write/seek (writer crash points = prefixes)
"""
import io
import z3
from .core import SymInt, Ctx


class MemFile(io.StringIO):
    def __init__(self, text, name='mem.gro'):
        super().__init__(text)
        self.name = name
        self.mode = 'r'


class SymEOFFile:
    """content[:t] is the file; t is a SymInt in [0, len(content)]."""

    def __init__(self, content, t, name='mem.gro'):
        self.content = content
        self.t = t
        self.pos = 0
        self.name = name
        self.mode = 'r'
        self.closed = False
        self.looks = []        # positions at which the reader looked (for the evidence)

    def readline(self):
        pos = self.pos
        self.looks.append(pos)
        if pos >= len(self.content) or bool(self.t <= pos):
            return ''
        nl = self.content.find('\n', pos)
        end = nl + 1 if nl >= 0 else len(self.content)
        if bool(self.t >= end):
            self.pos = end
            return self.content[pos:end]
        cut = self.t.concretize(pos + 1, end - 1)       # truncation inside the line being read
        self.pos = cut
        return self.content[pos:cut]

    def seek(self, p, whence=0):
        assert whence == 0
        self.pos = int(p)
        return self.pos

    def tell(self):
        return self.pos

    def close(self):
        self.closed = True

    def __iter__(self):
        while True:
            line = self.readline()
            if not line:
                return
            yield line


class OpLogFile:
    """Delegates to a real file object opened in write mode and records the operations."""

    def __init__(self, f):
        self._f = f
        self.ops = []
        self.name = f.name
        self.mode = f.mode

    def write(self, s):
        self.ops.append(('write', self._f.tell(), s))
        return self._f.write(s)

    def seek(self, p, whence=0):
        self.ops.append(('seek', p))
        return self._f.seek(p, whence)

    def tell(self):
        return self._f.tell()

    def close(self):
        self.ops.append(('close',))
        return self._f.close()

    def __getattr__(self, n):
        return getattr(self._f, n)


def apply_ops(ops):
    """file content after a prefix of logged operations"""
    buf = []
    pos = 0
    for op in ops:
        if op[0] == 'seek':
            pos = op[1]
        elif op[0] == 'write':
            s = op[2]
            if pos > len(buf):
                buf.extend('\0' * (pos - len(buf)))
            buf[pos:pos + len(s)] = list(s)
            pos += len(s)
    return ''.join(buf)


def write_gro_text(records, comment='title', box=(3.0, 4.0, 5.0), declare=False, position_format=None, oplog=False):
    """Content produced by the real GroFile writer (through a temporary file)."""
    import os
    import tempfile
    from gaddlemaps.parsers import GroFile
    d = tempfile.mkdtemp(prefix='symx-gro-')
    p = os.path.join(d, 'w.gro')
    try:
        f = GroFile(p, 'w')
        log = None
        if oplog:
            log = OpLogFile(f._file)
            f._file = log
        if declare:
            f.natoms = len(records)
        f.comment = comment
        f.box_matrix = box
        if position_format is not None:
            f.position_format = position_format
        for r in records:
            f.writeline(list(r))
        f.close()
        text = open(p, encoding='utf-8').read()
        return (text, log.ops) if oplog else text
    finally:
        try:
            os.remove(p)
        except OSError:
            pass
        os.rmdir(d)
