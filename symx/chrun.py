"""CrossHair driver: one `crosshair check` process per harness function under a fixed per-condition timeout.
Harness functions (chx/*.py) call the real gaddlemaps code on symbolic str/int arguments and return '' when the
property holds for these arguments, else a message; contract: post: __return__ == ''.
Result statuses: confirmed (exhaustive within the bound) / sat (counterexample, replayed) / nocex (no counterexample
within the budget: bounded refutation search only) / unknown (precondition not met within the budget)."""
import os
import re
import sys
import time
import subprocess

HERE = os.path.dirname(os.path.dirname(os.path.abspath(__file__)))


def _line_of(path, fn):
    for i, l in enumerate(open(path), 1):
        if re.match(r'def %s\(' % re.escape(fn), l):
            return i + 1
    raise KeyError(fn)


def run_crosshair(relpath, fn, budget, kind='ch', extra_env=None):
    path = os.path.join(HERE, relpath)
    line = _line_of(path, fn)
    exe = os.path.join(os.path.dirname(sys.executable), 'crosshair')
    env = dict(os.environ)
    env['PYTHONPATH'] = HERE + os.pathsep + env.get('PYTHONPATH', '')
    env.update(extra_env or {})
    t = time.time()
    try:
        pr = subprocess.run([exe, 'check', '--report_all', '--per_condition_timeout', str(budget), '%s:%d' % (path, line)],
                            capture_output=True, text=True, timeout=budget * 3 + 120, cwd=HERE, env=env)
        out = pr.stdout + pr.stderr
    except subprocess.TimeoutExpired as e:
        out = 'TIMEOUT ' + str(e)
    secs = round(time.time() - t, 1)
    rec = {'name': 'CrossHair %s (budget %ds)' % (fn, budget), 'secs': secs}
    m = re.search(r'error: (.*?) when calling (%s\(.*?\))(?: \(which (?:returns|raises) .*\))?\s*$' % re.escape(fn), out, re.M | re.S)
    if m and 'SideEffectDetected' in m.group(1):
        rec['status'] = 'unknown'
        rec['detail'] = m.group(1)[:300]
    elif m:
        rec['status'] = 'sat'
        call = m.group(2).split(' with crosshair.')[0]
        rec['witness'] = {'kind': kind, 'file': relpath, 'fn': fn, 'call': call, 'message': m.group(1)[:300]}
    elif 'Confirmed over all paths' in out:
        rec['status'] = 'confirmed'
    elif 'Not confirmed' in out:
        rec['status'] = 'nocex'
    elif 'Unable to meet precondition' in out:
        rec['status'] = 'unknown'
        rec['detail'] = 'Unable to meet precondition (vacuous precondition or every path timed out)'
    else:
        rec['status'] = 'unknown'
        rec['detail'] = out[-1500:]
    return {'records': [rec], 'paths': 0, 'queries': 0, 'solver_s': secs, 'samples': [{'crosshair_output': out[-400:]}],
            'nontrivial': [fn] if rec['status'] in ('confirmed', 'sat', 'nocex') else []}


def replay_crosshair(w):
    """Run the harness function concretely (no CrossHair) on the counterexample arguments."""
    import importlib.util
    path = os.path.join(HERE, w['file'])
    spec = importlib.util.spec_from_file_location('chx_replay', path)
    mod = importlib.util.module_from_spec(spec)
    spec.loader.exec_module(mod)
    try:
        msg = eval(w['call'], mod.__dict__)
    except Exception as e:
        msg = 'raised %s: %s' % (type(e).__name__, e)
    return {'reproduced': msg != '', 'what': '%s: %s' % (w['fn'], str(msg)[:300]), 'detail': {'call': w['call']}}
