"""Build real gaddlemaps Molecule / MoleculeTop objects directly (state construction, no file
parsing) with a given bond graph and (possibly symbolic) coordinates."""
import numpy as np


def make_top(name, atoms, bonds):
    """atoms: list of (atom name, resname, resid); bonds: list of 0-based pairs."""
    from gaddlemaps.components import MoleculeTop, AtomTop
    top = MoleculeTop.__new__(MoleculeTop)
    top.ftop = '<built by /verif>'
    top.name = name
    top.atoms = [AtomTop(an, rn, rid, i) for i, (an, rn, rid) in enumerate(atoms)]
    for a, b in bonds:
        top.atoms[a].connect(top.atoms[b])
    return top


def make_residues(atoms, coords, resid_offset=0, velocities=None):
    from gaddlemaps.components import Residue, AtomGro
    residues, cur, key = [], [], None
    for i, (an, rn, rid) in enumerate(atoms):
        k = (rn, rid)
        if key is not None and k != key:
            residues.append(Residue(cur))
            cur = []
        key = k
        line = [rid + resid_offset, rn, an, i + 1, coords[i][0], coords[i][1], coords[i][2]]
        if velocities is not None:
            line += list(velocities[i])
        cur.append(AtomGro(line))
    residues.append(Residue(cur))
    return residues


def make_molecule(name, atoms, bonds, coords, resid_offset=0, top=None, velocities=None):
    from gaddlemaps.components import Molecule
    if top is None:
        top = make_top(name, atoms, bonds)
    return Molecule(top, make_residues(atoms, coords, resid_offset, velocities))


def simple_atoms(n, prefix, resname):
    return [('%s%d' % (prefix, i), resname, 1) for i in range(n)]
