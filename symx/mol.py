"""Build real gaddlemaps Molecule / MoleculeTop objects directly (state construction, no file
parsing) with a given bond graph and (possibly symbolic) coordinates."""
import numpy as np


def make_top(name, atoms, bonds):
    """atoms: list of (atom name, resname, resid); bonds: list of 0-based pairs."""
    from gaddlemaps.components import MoleculeTop, AtomTop
    top = MoleculeTop.__new__(MoleculeTop)
    top.ftop = '<built by /verif>'
    top.name = name
    top.atoms = [AtomTop(an, rn, rid, i) for i, (an, rn, rid) in enumerate(atoms)]
    for a, b in bonds:
        top.atoms[a].connect(top.atoms[b])
    return top


def make_residues(atoms, coords, resid_offset=0, velocities=None, resid_stride=1):
    from gaddlemaps.components import Residue, AtomGro
    residues, cur, key = [], [], None
    for i, (an, rn, rid) in enumerate(atoms):
        k = (rn, rid)
        if key is not None and k != key:
            residues.append(Residue(cur))
            cur = []
        key = k
        line = [rid * resid_stride + resid_offset, rn, an, i + 1, coords[i][0], coords[i][1], coords[i][2]]
        if velocities is not None:
            line += list(velocities[i])
        cur.append(AtomGro(line))
    residues.append(Residue(cur))
    return residues


def make_molecule(name, atoms, bonds, coords, resid_offset=0, top=None, velocities=None, resid_stride=1):
    from gaddlemaps.components import Molecule
    if top is None:
        top = make_top(name, atoms, bonds)
    return Molecule(top, make_residues(atoms, coords, resid_offset, velocities, resid_stride))


def simple_atoms(n, prefix, resname):
    return [('%s%d' % (prefix, i), resname, 1) for i in range(n)]


def decoy_graph(n, edges):
    """Another connected bond graph on the same atoms in which as many anchors (>= 2 bonds) of the original as possible
    are anchors too, but with different two lowest-numbered neighbours - used to expose state shared between objects
    that is keyed by atom identity (index, names).  None if there is none (n <= 3)."""
    import itertools

    def frames(es):
        adj = {i: sorted(b if a == i else a for a, b in es if i in (a, b)) for i in range(n)}
        return {i: tuple(adj[i][:2]) for i in range(n) if len(adj[i]) >= 2}

    def connected(es):
        adj = {i: set() for i in range(n)}
        for a, b in es:
            adj[a].add(b); adj[b].add(a)
        seen, st = {0}, [0]
        while st:
            x = st.pop()
            for y in adj[x]:
                if y not in seen:
                    seen.add(y); st.append(y)
        return len(seen) == n
    f0 = frames(edges)
    if n > 5:
        # too many graphs to search: drop the bond to the lowest neighbour of every anchor and bond a non-neighbour instead
        es = set((min(a, b), max(a, b)) for a, b in edges)
        for a, (n1, n2) in f0.items():
            others = [x for x in range(n) if x != a and (min(a, x), max(a, x)) not in es]
            if others:
                es.discard((min(a, n1), max(a, n1)))
                es.add((min(a, others[-1]), max(a, others[-1])))
        es = sorted(es)
        f1 = frames(es)
        return es if any(a in f1 and f1[a] != f0[a] for a in f0) else None
    pairs = list(itertools.combinations(range(n), 2))
    best = None
    for m in range(n - 1, min(len(pairs), n + 1) + 1):
        for es in itertools.combinations(pairs, m):
            if not connected(es):
                continue
            f1 = frames(es)
            score = sum(1 for a in f0 if a in f1 and f1[a] != f0[a])
            if score and (best is None or score > best[0]):
                best = (score, sorted(es))
    return best[1] if best else None
