"""AST -> z3 kernels: closed integer expressions are located in /repo's *current* source by function name and
statement shape, translated to z3 Int arithmetic and decided over the whole integer range.  If the shape no
longer matches (refactoring) the kernel reports `inconclusive`, never a violation.  Python semantics:
// and % are floor division / modulus (z3 Int div/mod agree for positive divisors; for symbolic divisors the
translator requires a harness-supplied sign assumption)."""
import ast
import inspect
import importlib
import textwrap
import z3


class NoMatch(Exception):
    pass


def get_function_ast(spec):
    """spec 'module:qualname' -> (ast.FunctionDef, source)"""
    mn, qn = spec.split(':')
    obj = importlib.import_module(mn)
    for part in qn.split('.'):
        obj = getattr(obj, part)
    if isinstance(obj, (classmethod, staticmethod)):
        obj = obj.__func__
    obj = getattr(obj, '__func__', obj)
    src = textwrap.dedent(inspect.getsource(obj))
    tree = ast.parse(src)
    fn = tree.body[0]
    if not isinstance(fn, (ast.FunctionDef,)):
        raise NoMatch('not a function: %s' % spec)
    return fn, src


def find_assign(fn, target_src):
    """RHS ast of the (last) assignment whose target unparses to target_src"""
    found = None
    for node in ast.walk(fn):
        if isinstance(node, ast.Assign) and len(node.targets) == 1 and ast.unparse(node.targets[0]) == target_src:
            found = node.value
    if found is None:
        raise NoMatch('no assignment to %s' % target_src)
    return found


def to_z3(node, env, pyenv=None):
    """env: dict source-text -> z3 term (Int/Bool).  pyenv: dict name -> python constant."""
    pyenv = pyenv or {}
    src = ast.unparse(node)
    if src in env:
        return env[src]
    if isinstance(node, ast.Constant):
        if isinstance(node.value, bool):
            return z3.BoolVal(node.value)
        if isinstance(node.value, int):
            return z3.IntVal(node.value)
        raise NoMatch('constant %r' % (node.value,))
    if isinstance(node, ast.Name):
        if node.id in pyenv:
            v = pyenv[node.id]
            return z3.BoolVal(v) if isinstance(v, bool) else z3.IntVal(v)
        raise NoMatch('free name %s' % node.id)
    if isinstance(node, ast.Attribute):
        if src in pyenv:
            return z3.IntVal(pyenv[src])
        raise NoMatch('attribute %s' % src)
    if isinstance(node, ast.BinOp):
        a, b = to_z3(node.left, env, pyenv), to_z3(node.right, env, pyenv)
        a, b = _as_int(a), _as_int(b)
        if isinstance(node.op, ast.Add): return a + b
        if isinstance(node.op, ast.Sub): return a - b
        if isinstance(node.op, ast.Mult): return a * b
        if isinstance(node.op, ast.FloorDiv): return a / b       # z3 Int '/' = div (floor for positive divisor)
        if isinstance(node.op, ast.Mod): return a % b
        raise NoMatch('operator %s' % type(node.op).__name__)
    if isinstance(node, ast.UnaryOp):
        v = to_z3(node.operand, env, pyenv)
        if isinstance(node.op, ast.USub): return -_as_int(v)
        if isinstance(node.op, ast.Not): return z3.Not(_as_bool(v))
        raise NoMatch('unary')
    if isinstance(node, ast.Compare) and len(node.ops) == 1:
        a, b = _as_int(to_z3(node.left, env, pyenv)), _as_int(to_z3(node.comparators[0], env, pyenv))
        op = node.ops[0]
        if isinstance(op, ast.Gt): return a > b
        if isinstance(op, ast.GtE): return a >= b
        if isinstance(op, ast.Lt): return a < b
        if isinstance(op, ast.LtE): return a <= b
        if isinstance(op, ast.Eq): return a == b
        if isinstance(op, ast.NotEq): return a != b
        raise NoMatch('compare')
    if isinstance(node, ast.BoolOp):
        vs = [_as_bool(to_z3(v, env, pyenv)) for v in node.values]
        return z3.And(*vs) if isinstance(node.op, ast.And) else z3.Or(*vs)
    if isinstance(node, ast.Call) and isinstance(node.func, ast.Name) and node.func.id == 'int' and len(node.args) == 1:
        return _as_int(to_z3(node.args[0], env, pyenv))
    if isinstance(node, ast.IfExp):
        return z3.If(_as_bool(to_z3(node.test, env, pyenv)), _as_int(to_z3(node.body, env, pyenv)), _as_int(to_z3(node.orelse, env, pyenv)))
    raise NoMatch('unsupported node %s: %s' % (type(node).__name__, src))


def _as_int(v):
    if z3.is_bool(v):
        return z3.If(v, z3.IntVal(1), z3.IntVal(0))
    return v


def _as_bool(v):
    if z3.is_bool(v):
        return v
    return v != 0


def decide(hyps, claim, timeout_ms=60000):
    """-> ('unsat'|'sat'|'unknown', secs, model)"""
    import time
    s = z3.Solver()
    s.set('timeout', int(timeout_ms))
    s.add(*hyps)
    s.add(z3.Not(claim))
    t = time.time()
    r = str(s.check())
    return r, round(time.time() - t, 3), (s.model() if r == 'sat' else None)
