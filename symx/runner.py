"""Driver: ./check <ID> [--tier quick|thorough] | ./check <ID> --replay <file>

A property module (props/<ID>.py) provides
    ID, FUNCTIONS (list of 'module:qualname'), BOUNDS (dict), ASSUMPTIONS (list), STUBS (list),
    OUTSIDE (list), EXPLANATION (str)
    cases(tier)          -> list of picklable case descriptors (dicts with at least 'name')
    run_case(case)       -> dict(records=[...], paths=int, queries=int, solver_s=float, samples=[...])
    replay(witness)      -> dict(reproduced=bool, what=str, detail=...)   (runs WITHOUT any proxy/stub)
A record is dict(name, status, secs, witness?) with status in
    unsat      obligation discharged by the solver over all values within the bound
    sat        candidate counterexample (witness attached) -> replayed against the real code
    unknown    solver/time limit: inconclusive (counted, never success, never violation)
    confirmed  CrossHair: "Confirmed over all paths" (exhaustive within the bound)
    nocex      CrossHair: no counterexample within the time budget (bounded refutation search only)
    twin       reachability twin came back reachable (vacuity guard); 'twin-fail' otherwise
"""
import sys
import os
import json
import time
import hashlib
import importlib
import inspect
import subprocess
import traceback

HERE = os.path.dirname(os.path.dirname(os.path.abspath(__file__)))
EXIT_HARNESS = 3


def _src_hash(spec):
    mn, qn = spec.split(':')
    mod = importlib.import_module(mn)
    obj = mod
    for part in qn.split('.'):
        obj = getattr(obj, part)
    if isinstance(obj, property):
        obj = obj.fget
    try:
        src = inspect.getsource(obj)
    except (OSError, TypeError):
        return {'function': spec, 'sha256_12': 'unavailable'}
    return {'function': spec, 'sha256_12': hashlib.sha256(src.encode()).hexdigest()[:12],
            'lines': len(src.splitlines())}


def _run_case_wrapper(args):
    modname, case = args
    t0 = time.time()
    try:
        mod = importlib.import_module(modname)
        out = mod.run_case(case)
        out.setdefault('records', [])
    except BaseException as e:   # noqa - includes path-steering exceptions escaping a harness
        tb = ''.join(traceback.format_exception(type(e), e, e.__traceback__))[-3000:]
        blocked = any(m in tb for m in ('compiled-code boundary', 'UnsupportedOperation', 'object arrays are not supported', 'must be real number, not Sym',
                                        "float() argument must be a string or a real number, not 'Sym", 'loop of ufunc does not support argument 0 of type Sym'))
        if blocked and hasattr(mod, 'fallback_probes'):
            # the (changed) code leaves what can be executed symbolically (compiled extension, descriptor-level I/O ...):
            # the case is inconclusive for the solver; a fixed battery of concrete probes through the public API is run
            # instead and clearly labelled as such in the evidence
            try:
                recs = mod.fallback_probes(case)
            except BaseException as e2:  # noqa
                recs = [{'name': 'fallback probes failed: %r' % (e2,), 'status': 'unknown', 'secs': 0}]
            out = {'records': [{'name': 'symbolic execution blocked (%s): case inconclusive for the solver, concrete fallback probes run' % str(e)[:80],
                                'status': 'unknown', 'secs': 0}] + recs, 'fallback': True}
        elif blocked:
            out = {'records': [{'name': 'symbolic execution blocked by compiled code (%s): inconclusive' % str(e)[:80], 'status': 'unknown', 'secs': 0, 'detail': tb[-600:]}]}
        else:
            out = {'records': [{'name': 'harness-error', 'status': 'error', 'secs': 0, 'detail': tb}]}
    out['case'] = case.get('name')
    out['wall_s'] = round(time.time() - t0, 3)
    return out


def _schedule(modname, cases, nproc, case_timeout):
    """One worker process per case (own interpreter: module-global substitutions never leak), at most nproc
    at a time, hard wall-clock limit per case; a crashed or killed worker is an inconclusive case."""
    import tempfile
    import shutil
    tmp = tempfile.mkdtemp(prefix='symx-run-')
    pending = list(enumerate(cases))
    running = {}
    results = [None] * len(cases)
    try:
        while pending or running:
            while pending and len(running) < nproc:
                idx, c = pending.pop(0)
                cin = os.path.join(tmp, 'case%d.json' % idx)
                cout = os.path.join(tmp, 'out%d.json' % idx)
                with open(cin, 'w') as f:
                    json.dump(c, f)
                p = subprocess.Popen([sys.executable, '-m', 'symx.runner', '--worker', modname, cin, cout], cwd=HERE,
                                     stdout=subprocess.DEVNULL, stderr=open(os.path.join(tmp, 'err%d.txt' % idx), 'w'))
                running[idx] = (p, time.time(), c, cout)
            time.sleep(0.05)
            for idx in list(running):
                p, t0, c, cout = running[idx]
                rc = p.poll()
                if rc is None and time.time() - t0 > case_timeout:
                    p.kill()
                    p.wait()
                    results[idx] = {'case': c['name'], 'wall_s': case_timeout,
                                    'records': [{'name': 'case-timeout (%ds)' % case_timeout, 'status': 'unknown', 'secs': case_timeout}]}
                    del running[idx]
                elif rc is not None:
                    try:
                        results[idx] = json.load(open(cout))
                    except Exception:
                        err = open(os.path.join(tmp, 'err%d.txt' % idx)).read()[-2000:]
                        results[idx] = {'case': c['name'], 'wall_s': round(time.time() - t0, 2),
                                        'records': [{'name': 'worker-crash rc=%s' % rc, 'status': 'error', 'secs': 0, 'detail': err}]}
                    del running[idx]
    finally:
        for idx, (p, t0, c, cout) in running.items():
            p.kill()
        shutil.rmtree(tmp, ignore_errors=True)
    return results


def _worker(argv):
    modname, cin, cout = argv
    sys.path.insert(0, HERE)
    try:
        import resource
        lim = int(os.environ.get('VERIF_WORKER_MEM_GB', '10')) << 30
        resource.setrlimit(resource.RLIMIT_AS, (lim, lim))
    except Exception:
        pass
    case = json.load(open(cin))
    out = _run_case_wrapper((modname, case))
    with open(cout + '.tmp', 'w') as f:
        json.dump(out, f, default=str)
    os.replace(cout + '.tmp', cout)
    return 0


def load_known():
    p = os.path.join(HERE, 'known_findings.json')
    if not os.path.exists(p):
        return []
    return json.load(open(p)).get('findings', [])


def main(argv=None):
    argv = list(sys.argv[1:] if argv is None else argv)
    if argv and argv[0] == '--worker':
        return _worker(argv[1:])
    if not argv:
        print('usage: check <ID> [--tier quick|thorough] [--replay file] [--case substr] [--jobs n]')
        return 2
    pid = argv[0]
    tier = os.environ.get('VERIF_TIER', 'quick')
    replay = None
    only = None
    jobs = int(os.environ.get('VERIF_JOBS', '16'))
    i = 1
    while i < len(argv):
        if argv[i] == '--tier':
            tier = argv[i + 1]; i += 2
        elif argv[i] == '--replay':
            replay = argv[i + 1]; i += 2
        elif argv[i] == '--case':
            only = argv[i + 1]; i += 2
        elif argv[i] == '--jobs':
            jobs = int(argv[i + 1]); i += 2
        else:
            print('unknown arg', argv[i]); return 2
    seed = int(os.environ.get('VERIF_SEED', '0'))
    sys.path.insert(0, HERE)
    modname = 'props.' + pid
    mod = importlib.import_module(modname)

    if replay is not None:
        w = json.load(open(replay))
        res = mod.replay(w['witness'] if 'witness' in w else w)
        print('REPLAY-RESULT ' + json.dumps(res, default=str))
        return 1 if res.get('reproduced') else 0

    t0 = time.time()
    cases = mod.cases(tier)
    if only:
        cases = [c for c in cases if only in c['name']]
    for c in cases:
        c.setdefault('tier', tier)
        c.setdefault('seed', seed)
    results = []
    case_timeout = getattr(mod, 'CASE_TIMEOUT', {'quick': 600, 'thorough': 3000})[tier]
    results = _schedule(modname, cases, max(1, min(jobs, len(cases))), case_timeout)

    # ---- aggregate -------------------------------------------------------------------------
    counts = {}
    records = []
    paths = queries = 0
    solver_s = 0.0
    samples = []
    nontrivial = set()
    for r in results:
        paths += r.get('paths', 0)
        queries += r.get('queries', 0)
        solver_s += r.get('solver_s', 0.0)
        for s in r.get('samples', [])[:2]:
            if len(samples) < 12:
                samples.append({'case': r['case'], **(s if isinstance(s, dict) else {'sample': s})})
        for k in r.get('nontrivial', []):
            nontrivial.add((r['case'], k))
        for rec in r['records']:
            rec = dict(rec)
            rec['case'] = r['case']
            records.append(rec)
            counts[rec['status']] = counts.get(rec['status'], 0) + 1

    # ---- replay candidates -----------------------------------------------------------------
    known = [k for k in load_known() if k['property'] == pid and k.get('kind') == 'known']
    violations = []
    known_hits = []
    unreproduced = []
    os.makedirs(os.path.join(HERE, 'replay'), exist_ok=True)
    seen_what = set()
    cands = [rec for rec in records if rec['status'] == 'sat' and rec.get('witness') is not None]
    for rec in cands[:getattr(mod, 'MAX_REPLAYS', 12)]:
        blob = json.dumps(rec['witness'], sort_keys=True, default=str)
        h = hashlib.sha256(blob.encode()).hexdigest()[:10]
        path = os.path.join(HERE, 'replay', '%s-%s.json' % (pid, h))
        with open(path, 'w') as f:
            json.dump({'property': pid, 'obligation': rec['name'], 'case': rec['case'],
                       'witness': rec['witness']}, f, indent=1, default=str)
        pr = subprocess.run([sys.executable, '-m', 'symx.runner', pid, '--replay', path], cwd=HERE,
                            capture_output=True, text=True, timeout=600)
        res = None
        for line in pr.stdout.splitlines():
            if line.startswith('REPLAY-RESULT '):
                res = json.loads(line[len('REPLAY-RESULT '):])
        rec['replay'] = res if res is not None else {'reproduced': False, 'what': 'replay crashed',
                                                     'detail': (pr.stdout + pr.stderr)[-1500:]}
        rec['replay_file'] = path
        if rec['replay'].get('reproduced'):
            what = rec['replay'].get('what', '')
            hit = None
            import re
            for k in known:
                if re.search(k['match'], what):
                    hit = k
            if hit is not None:
                known_hits.append((hit, what))
            else:
                violations.append((path, what, rec))
        else:
            unreproduced.append(rec)
    errors = [rec for rec in records if rec['status'] in ('error', 'twin-fail')]

    # ---- evidence --------------------------------------------------------------------------
    discharged = counts.get('unsat', 0) + counts.get('confirmed', 0)
    n_oblig = sum(v for k, v in counts.items() if k in ('unsat', 'sat', 'unknown', 'confirmed', 'nocex'))
    functions = []
    for spec in getattr(mod, 'FUNCTIONS', []):
        try:
            functions.append(_src_hash(spec))
        except Exception as e:  # refactored away: say so, do not fail
            functions.append({'function': spec, 'sha256_12': 'missing: %s' % e})
    ev = {
        'property_id': pid, 'tier': tier, 'seed': seed, 'level': 'other',
        'coverage': {
            'explanation': getattr(mod, 'EXPLANATION', ''),
            'technique': 'bounded symbolic execution of the real code with SMT (z3 %s)%s' % (
                __import__('z3').get_version_string(), getattr(mod, 'TECH_EXTRA', '')),
            'functions_encoded': functions,
            'bounds': getattr(mod, 'BOUNDS', {}).get(tier, getattr(mod, 'BOUNDS', {})),
            'outside_the_claim': getattr(mod, 'OUTSIDE', []),
            'stubs': getattr(mod, 'STUBS', []),
            'structural_cases': len(cases),
            'evaluations': max(paths, len(records)),
            'paths_explored': paths,
            'distinct_nontrivial': len(nontrivial) if nontrivial else 0,
            'rule': getattr(mod, 'RULE', 'one evaluation = one explored path of the real code (distinct path '
                                        'condition); non-trivial = structural case x path with at least one '
                                        'symbolic fork or one solver-decided obligation'),
            'obligations': n_oblig, 'discharged': discharged,
            'status_counts': counts,
            'inconclusive': counts.get('unknown', 0) + counts.get('nocex', 0),
            'solver_queries': queries, 'solver_time_s': round(solver_s, 2),
            'samples': samples or [{'note': 'no samples recorded'}],
            'candidates_replayed': len(cands), 'reproduced_violations': len(violations),
            'known_findings_hit': [w for _, w in known_hits],
            'not_reproduced': [{'obligation': r['name'], 'case': r['case'], 'replay': r.get('replay')} for r in unreproduced],
            'harness_errors': [{'case': r['case'], 'name': r['name'], 'detail': r.get('detail', '')[-600:]} for r in errors],
            'obligation_log': ([{'case': r['case'], 'name': r['name'], 'status': r['status'], 'secs': r.get('secs'), 'detail': str(r.get('detail', ''))[:300]}
                                for r in records if r['status'] not in ('unsat', 'twin', 'validated', 'skipped', 'confirmed')][:200]
                               + [{'case': r['case'], 'name': r['name'], 'status': r['status'], 'secs': r.get('secs')}
                                  for r in records if r['status'] in ('unsat', 'twin', 'validated', 'skipped', 'confirmed')][:300]),
            'slowest': sorted([{'case': r['case'], 'name': r['name'], 'status': r['status'], 'secs': r.get('secs')}
                               for r in records if (r.get('secs') or 0) > 2], key=lambda x: -x['secs'])[:15],
            'exhaustive': False,
        },
        'assumptions': getattr(mod, 'ASSUMPTIONS', []),
        'wall_s': round(time.time() - t0, 2),
        'violations': len(violations),
    }
    # VERIF_EVIDENCE_DIR: used only by tools/seedcheck_wt.sh so that evaluating a seeded change never overwrites evidence
    evdir = os.environ.get('VERIF_EVIDENCE_DIR') or os.path.join(HERE, 'evidence')
    os.makedirs(evdir, exist_ok=True)
    with open(os.path.join(evdir, pid + '.json'), 'w') as f:
        json.dump(ev, f, indent=1, default=str)

    print('%s tier=%s cases=%d paths=%d obligations=%d %s solver=%.1fs wall=%.1fs' % (
        pid, tier, len(cases), paths, n_oblig, counts, solver_s, time.time() - t0))
    for hit, what in known_hits:
        print('KNOWN-FINDING: property=%s %s' % (pid, what))
    for path, what, rec in violations:
        print('VIOLATION property=%s replay=%s' % (pid, path))
        print('  obligation=%s case=%s: %s' % (rec['name'], rec['case'], what))
    if violations:
        return 1
    for r in unreproduced:
        # a solver counterexample that does not reproduce against the real code is never reported as a violation
        # (a model/encoding artefact, or a symbolic pre-state no real history reaches): logged, counted in the evidence
        print('UNCONFIRMED (solver counterexample did not reproduce on the real code; not a violation) case=%s obligation=%s %s' % (
            r['case'], r['name'], json.dumps(r.get('replay'), default=str)[:300]))
    if errors:
        for r in errors:
            print('HARNESS-ERROR case=%s %s: %s' % (r['case'], r['name'], r.get('detail', '')[-800:]))
        return EXIT_HARNESS
    return 0


if __name__ == '__main__':
    sys.exit(main())
