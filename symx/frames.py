"""Shared reasoning about the local frames built by the real calcule_base inside ExchangeMap.

For one frame (v1, v2, v3) met on one path:
  1. row lemmas  |v1|=1, |v3|=1, v1.v3=0  are proved with the full path condition (real expressions);
  2. the six column equations (F^T F = I) and det=+1 are proved after let-abstraction v1->u, v3->c (v2 stays
     the real cross-product expression), using only the row lemmas as hypotheses;
  3. callers then abstract the whole frame to nine fresh reals constrained by the proven row and column
     equations (an over-approximation of the real frame: sound for unsat).
Identical abstracted queries are memoised per process (symx.core._ABSTRACT_MEMO)."""
import z3
from .core import expr, dot3


def fresh_frame(tag=''):
    return [[z3.Real('F%s!abs%d%d' % (tag, j, c)) for c in range(3)] for j in range(3)]


def orthonormal_facts(F):
    rows = [sum(F[a][c] * F[b][c] for c in range(3)) == (1 if a == b else 0) for a in range(3) for b in range(a, 3)]
    cols = [sum(F[j][a] * F[j][b] for j in range(3)) == (1 if a == b else 0) for a in range(3) for b in range(a, 3)]
    return rows, cols


def prove_frame(ctx, frame, cap, tag, records, make_witness=None, abs_tag=''):
    """Returns (ok, passes, lemmas): substitution passes that replace the frame by 9 fresh reals and the
    orthonormality facts proven for it on this path.  Appends one record per obligation."""
    v1, v2, v3 = frame
    ok = True

    def rec(nm, r, secs, model, claim):
        d = {'name': '%s: %s' % (tag, nm), 'status': r, 'secs': secs}
        if r == 'sat' and make_witness is not None:
            d['witness'] = make_witness(ctx, [z3.Not(claim)], model, nm)
        records.append(d)
    row_claims = [('|v1|=1', dot3(v1, v1) == 1), ('|v3|=1', dot3(v3, v3) == 1), ('v1.v3=0', dot3(v1, v3) == 0),
                  ('v2 = v3 x v1', z3.And(expr(v2[0]) == expr(v3[1]) * expr(v1[2]) - expr(v3[2]) * expr(v1[1]),
                                          expr(v2[1]) == expr(v3[2]) * expr(v1[0]) - expr(v3[0]) * expr(v1[2]),
                                          expr(v2[2]) == expr(v3[0]) * expr(v1[1]) - expr(v3[1]) * expr(v1[0])))]
    u = [z3.Real('u%s!abs%d' % (abs_tag, c)) for c in range(3)]
    cc = [z3.Real('c%s!abs%d' % (abs_tag, c)) for c in range(3)]
    sub_uc = [[(expr(v3[c]), cc[c]) for c in range(3)], [(expr(v1[c]), u[c]) for c in range(3)]]
    lem_uc = [sum(x * x for x in u) == 1, sum(x * x for x in cc) == 1, sum(x * y for x, y in zip(u, cc)) == 0]
    for nm, cl in row_claims:
        if nm == '|v3|=1':
            r, secs, m = ctx.prove_abstracted(cl, [[(expr(v1[c]), u[c]) for c in range(3)]], [lem_uc[0]], cap)
        else:
            # no substitution: only the cone-of-influence pruning of unrelated hypotheses (falls back to the full query)
            r, secs, m = ctx.prove_abstracted(cl, [[]], [], cap)
        rec('frame lemma ' + nm, r, secs, m, cl)
        ok = ok and r == 'unsat'
    if not ok:
        return False, None, None
    Fr = [v1, v2, v3]
    # v2 is re-expressed through the cross product (justified by the lemma above) so that the abstraction is closed
    v2x = [cc[1] * u[2] - cc[2] * u[1], cc[2] * u[0] - cc[0] * u[2], cc[0] * u[1] - cc[1] * u[0]]
    Fa = [u, v2x, cc]
    for a in range(3):
        for b in range(a, 3):
            cl = sum(Fa[j][a] * Fa[j][b] for j in range(3)) == (1 if a == b else 0)
            r, secs, m = _universal(ctx, lem_uc, cl, cap)
            rec('frame lemma column %d.%d (from rows, universal in u,c)' % (a + 1, b + 1), r, secs, None, cl)
            ok = ok and r == 'unsat'
    for nm, cl in (('|v2|=1', sum(x * x for x in v2x) == 1), ('v1.v2=0', sum(x * y for x, y in zip(u, v2x)) == 0),
                   ('v2.v3=0', sum(x * y for x, y in zip(cc, v2x)) == 0)):
        r, secs, m = _universal(ctx, lem_uc, cl, cap)
        rec('frame lemma row %s (from rows of v1,v3; universal in u,c)' % nm, r, secs, None, cl)
        ok = ok and r == 'unsat'
    if not ok:
        return False, None, None
    F = fresh_frame(abs_tag)
    passes = [[(expr(v2[c]), F[1][c]) for c in range(3)], [(expr(v3[c]), F[2][c]) for c in range(3)],
              [(expr(v1[c]), F[0][c]) for c in range(3)]]
    rows, cols = orthonormal_facts(F)
    return ok, passes, rows + cols


def _universal(ctx, hyps, claim, cap):
    """A closed lemma over fresh variables only (no path condition needed): memoised."""
    import time
    import hashlib
    from . import core
    key = hashlib.sha256(('U' + '\n'.join(h.sexpr() for h in hyps) + '==>' + claim.sexpr()).encode()).hexdigest()
    t = time.time()
    if key in core._ABSTRACT_MEMO:
        return core._ABSTRACT_MEMO[key], 0.0, None
    s = z3.Solver()
    s.set('timeout', int(cap))
    s.add(*hyps)
    s.add(z3.Not(claim))
    r = str(s.check())
    ctx.queries += 1
    ctx.solver_time += time.time() - t
    if r != 'unknown':
        core._ABSTRACT_MEMO[key] = r
    return r, round(time.time() - t, 3), None


def restore_lemma(ctx, cap, records, tag):
    """Universal lemma (memoised), proved in three solver steps so that no query needs ideal-membership search:
         E_c   := sum_j (s * sum_k F[j][k] w[k]) * F[j][c]            (what project-scale-restore computes)
         mid_c := sum_k s * w[k] * (sum_j F[j][c] F[j][k])
       (I)  E_c = mid_c                      polynomial identity, no hypotheses
       (II) columns orthonormal |- mid_c = s * w[c]
       (III) (I),(II) |- E_c = s * w[c]
    Returns inst(F, w, s) -> the three instantiated conclusions E_c = s w_c (hypotheses for frames whose column
    equations have been established), or None."""
    F = fresh_frame('L')
    w = [z3.Real('wL!abs%d' % c) for c in range(3)]
    s = z3.Real('sL!abs')
    rows, cols = orthonormal_facts(F)

    def E(F, w, s, c):
        return sum((s * sum(F[j][k] * w[k] for k in range(3))) * F[j][c] for j in range(3))

    def mid(F, w, s, c):
        return sum(s * w[k] * sum(F[j][c] * F[j][k] for j in range(3)) for k in range(3))
    ok = True
    for c in range(3):
        steps = [('I  E = mid (identity)', [], E(F, w, s, c) == mid(F, w, s, c)),
                 ('II columns |- mid = s w', cols, mid(F, w, s, c) == s * w[c]),
                 ('III E = s w', [E(F, w, s, c) == mid(F, w, s, c), mid(F, w, s, c) == s * w[c]], E(F, w, s, c) == s * w[c])]
        for nm, hy, cl in steps:
            r, secs, m = _universal(ctx, hy, cl, cap)
            records.append({'name': '%s: universal restore lemma %s, component %s' % (tag, nm, 'xyz'[c]), 'status': r, 'secs': secs})
            ok = ok and r == 'unsat'
    if not ok:
        return None
    return lambda F_, w_, s_: [E(F_, w_, s_, c) == s_ * w_[c] for c in range(3)]


def norm_lemmas(ctx, cap, records, tag):
    """Universal lemmas (memoised, each in three solver steps with an explicit middle form):
       rows orthonormal    |- | sum_j pi_j F_j |^2 = |pi|^2                    (restore preserves norms)
       columns orthonormal |- | s * F w |^2 = s^2 |w|^2                        (project-and-scale)
    Returns (inst_row(F, pi), inst_col(F, w, s)) giving the instantiated conclusions, or None."""
    F = fresh_frame('N')
    pi = [z3.Real('piN!abs%d' % c) for c in range(3)]
    w = [z3.Real('wN!abs%d' % c) for c in range(3)]
    s = z3.Real('sN!abs')
    rows, cols = orthonormal_facts(F)

    def lhs_row(F, pi):
        return sum(sum(pi[j] * F[j][c] for j in range(3)) ** 2 for c in range(3))

    def mid_row(F, pi):
        return sum(pi[j] * pi[k] * sum(F[j][c] * F[k][c] for c in range(3)) for j in range(3) for k in range(3))

    def rhs_row(pi):
        return sum(x * x for x in pi)

    def lhs_col(F, w, s):
        return sum((s * sum(F[j][k] * w[k] for k in range(3))) ** 2 for j in range(3))

    def mid_col(F, w, s):
        return sum(s * s * w[a] * w[b] * sum(F[j][a] * F[j][b] for j in range(3)) for a in range(3) for b in range(3))

    def rhs_col(w, s):
        return s * s * sum(x * x for x in w)
    rows9 = [sum(F[a][c] * F[b][c] for c in range(3)) == (1 if a == b else 0) for a in range(3) for b in range(3)]
    cols9 = [sum(F[j][a] * F[j][b] for j in range(3)) == (1 if a == b else 0) for a in range(3) for b in range(3)]
    ok = True
    for nm, hy, cl in (
            ('row I   |pi F|^2 = mid (identity)', [], lhs_row(F, pi) == mid_row(F, pi)),
            ('row II  rows |- mid = |pi|^2', rows9, mid_row(F, pi) == rhs_row(pi)),
            ('row III |pi F|^2 = |pi|^2', [lhs_row(F, pi) == mid_row(F, pi), mid_row(F, pi) == rhs_row(pi)], lhs_row(F, pi) == rhs_row(pi)),
            ('col I   |s F w|^2 = mid (identity)', [], lhs_col(F, w, s) == mid_col(F, w, s)),
            ('col II  columns |- mid = s^2 |w|^2', cols9, mid_col(F, w, s) == rhs_col(w, s)),
            ('col III |s F w|^2 = s^2 |w|^2', [lhs_col(F, w, s) == mid_col(F, w, s), mid_col(F, w, s) == rhs_col(w, s)],
             lhs_col(F, w, s) == rhs_col(w, s))):
        r, secs, m = _universal(ctx, hy, cl, cap)
        records.append({'name': '%s: universal norm lemma %s' % (tag, nm), 'status': r, 'secs': secs})
        ok = ok and r == 'unsat'
    if not ok:
        return None
    return (lambda F_, pi_: lhs_row(F_, pi_) == rhs_row(pi_)), (lambda F_, w_, s_: lhs_col(F_, w_, s_) == rhs_col(w_, s_))


def frame_of_passes(passes):
    """the 3x3 fresh-variable frame [v1, v2, v3] of the substitution passes returned by prove_frame"""
    return [[passes[2][c][1] for c in range(3)], [passes[0][c][1] for c in range(3)], [passes[1][c][1] for c in range(3)]]


def axis_lemma(ctx, cap, records, tag):
    """Universal lemma (memoised): rows orthonormal |- (sum_j pi_j F_j) . F_0 = pi_0  (the coordinate of a restored
    point along the first frame vector is the first stored projection).  Returns inst(F, pi)."""
    F = fresh_frame('A')
    pi = [z3.Real('piA!abs%d' % c) for c in range(3)]
    rows9 = [sum(F[a][c] * F[b][c] for c in range(3)) == (1 if a == b else 0) for a in range(3) for b in range(3)]

    def lhs(F, pi):
        return sum(sum(pi[j] * F[j][c] for j in range(3)) * F[0][c] for c in range(3))

    def mid(F, pi):
        return sum(pi[j] * sum(F[j][c] * F[0][c] for c in range(3)) for j in range(3))
    ok = True
    for nm, hy, cl in (('I   (pi F).F0 = mid (identity)', [], lhs(F, pi) == mid(F, pi)),
                       ('II  rows |- mid = pi_0', rows9, mid(F, pi) == pi[0]),
                       ('III (pi F).F0 = pi_0', [lhs(F, pi) == mid(F, pi), mid(F, pi) == pi[0]], lhs(F, pi) == pi[0])):
        r, secs, m = _universal(ctx, hy, cl, cap)
        records.append({'name': '%s: universal axis lemma %s' % (tag, nm), 'status': r, 'secs': secs})
        ok = ok and r == 'unsat'
    if not ok:
        return None
    return lambda F_, pi_: lhs(F_, pi_) == pi_[0]


def assume_no_distance_ties(ctx, target_rows, anchor_rows):
    """Precondition used for references with three or more anchors: no two anchors are exactly equidistant from a
    target atom (the tie paths of the real sort are measure-zero and multiply the path count 3^k).  The distances
    are the code's own sqrt terms (created here, shared by key when the real code computes them)."""
    import numpy as np
    from .core import SymReal, Ctx
    from .npx import sym_euclidean
    Ctx.cur = ctx
    for t in target_rows:
        ds = [expr(sym_euclidean(np.array([SymReal(x) for x in t], dtype=object), np.array([SymReal(x) for x in a], dtype=object)))
              for a in anchor_rows]
        for i in range(len(ds)):
            for j in range(i):
                ctx.assume(ds[i] != ds[j])
