"""SymX core: symbolic scalars that ride through the *real* numpy (dtype=object arrays) and the
real gaddlemaps code; path exploration by re-execution (DART style), forking only at __bool__.

Nothing here knows about gaddlemaps.  Every query goes to z3 with a time cap; `unknown` is
never turned into success or violation - it is counted and reported as inconclusive.
"""
import time
import fractions
import numpy as np
import z3


class PathAbort(BaseException):
    """Raised to abandon the current path (infeasible assumption, budget...)."""


class Budget(BaseException):
    pass


_ABSTRACT_MEMO = {}
FLOAT_FALLBACK = None
import random as _random
_SAMPLER = _random.Random(12345)
import os as _os
_TRACE = bool(_os.environ.get('VERIF_TRACE'))
QUERY_TIMEOUT_MS = 60000
BRANCH_TIMEOUT_MS = 20000


class Ctx:
    cur = None
    default_sample_inputs = None   # harness may set: dict name -> z3 input variable (enables sampling in feasible())

    def __init__(self, prefix=()):
        self.decisions = list(prefix)
        self.pos = 0
        self.pc = []          # path condition (z3 Bool terms), in order
        self.side = []        # definitional side constraints (sqrt, trig, rint, assumptions)
        self.fresh = 0
        self.solver_time = 0.0
        self.queries = 0
        self.inconclusive = 0  # number of `unknown` answers met on this path
        self.sqrts = []
        self.trig = {}
        self.log = []          # free-form trace (harness use)
        self.div_zero = []     # (pc-index, denominator term) of divisions whose zero branch is open
        self.notes = {}
        self.decided = {}
        self.sample_inputs = Ctx.default_sample_inputs
        self.witness = None     # concrete input values known to satisfy side /\ pc so far (dict name -> Fraction)
        self.witness_tried = False
        self.defs = {}         # names of auxiliary variables introduced by definitional side constraints

    # -- variables -------------------------------------------------------------------------
    def freshvar(self, base, sort='real'):
        self.fresh += 1
        n = "%s!%d" % (base, self.fresh)
        if sort == 'real':
            return z3.Real(n)
        if sort == 'int':
            return z3.Int(n)
        return z3.Bool(n)

    # -- solver ----------------------------------------------------------------------------
    def _check(self, extra, timeout_ms, want_model=False, upto=None):
        s = z3.Solver()
        s.set('timeout', int(timeout_ms))
        s.add(*self.side)
        s.add(*(self.pc if upto is None else self.pc[:upto]))
        for e in extra:
            s.add(e)
        t = time.time()
        r = str(s.check())
        self.solver_time += time.time() - t
        self.queries += 1
        if _TRACE and time.time() - t > 1:
            import sys
            print('[trace] query %.1fs -> %s (pc=%d side=%d extra=%s)' % (time.time() - t, r, len(self.pc), len(self.side),
                                                                       str(extra[-1])[:100] if extra else ''), file=sys.stderr, flush=True)
        if r == 'unknown':
            self.inconclusive += 1
        if want_model:
            return r, (s.model() if r == 'sat' else None)
        return r

    def _witness_constraints(self):
        out = []
        for k, v in self.sample_inputs.items():
            if k in self.witness:
                val = self.witness[k]
                out.append(v == (int(val) if z3.is_int(v) else realval(val)))
        return out

    def _witness_from_model(self, m):
        if not self.sample_inputs or m is None:
            return None
        w = {}
        try:
            for k, v in self.sample_inputs.items():
                r = m.eval(v, model_completion=True)
                if z3.is_rational_value(r):
                    w[k] = fractions.Fraction(r.numerator_as_long(), r.denominator_as_long())
                elif z3.is_int_value(r):
                    w[k] = fractions.Fraction(r.as_long())
                else:
                    return None      # algebraic input value: no exact witness
        except Exception:
            return None
        return w

    def _eval_under_witness(self, cond):
        """Truth value of cond under the concrete witness (all inputs fixed => the query is an evaluation)."""
        if not self.sample_inputs:
            return None
        if self.witness is None:
            if self.witness_tried:
                return None
            self.witness_tried = True
            r, m = self._check([], BRANCH_TIMEOUT_MS, want_model=True)
            self.witness = self._witness_from_model(m) if r == 'sat' else None
            if self.witness is None:
                return None
        fix = self._witness_constraints()
        r = self._check([cond] + fix, 4000)
        if r == 'sat':
            return True
        if r == 'unsat':
            if self._check([z3.Not(cond)] + fix, 4000) == 'sat':
                return False
            self.witness = None      # the witness no longer satisfies side /\ pc (e.g. a later assumption): drop it
            self.witness_tried = False
        return None

    def feasible(self, cond, upto=None):
        return self._check([cond], BRANCH_TIMEOUT_MS, upto=upto)

    def branch(self, cond):
        """cond: z3 Bool.  Returns a python bool and records the decision.  The raw (unsimplified)
        condition is what enters the path condition, so that sub-terms stay intact for
        let-abstraction by substitution."""
        simp = z3.simplify(cond)
        if z3.is_true(simp):
            return True
        if z3.is_false(simp):
            return False
        key = simp.sexpr()
        if key in self.decided:
            return self.decided[key]
        if self.pos < len(self.decisions):
            d = self.decisions[self.pos]
        else:
            ev = self._eval_under_witness(cond)
            if ev is not None:
                d = ev                 # follow the witness: this side is feasible by construction
            else:
                rt = self.feasible(cond)
                if rt == 'unsat':
                    d = False
                else:
                    d = True
            self.decisions.append(d)
        self.pos += 1
        self.pc.append(cond if d else z3.Not(cond))
        self.decided[key] = d
        return d

    def assume(self, cond):
        """Constrain the inputs (precondition).  Not a fork."""
        if isinstance(cond, SymBool):
            cond = cond.e
        self.side.append(cond)

    def prove(self, claim, timeout_ms=None, extra_hyp=()):
        """Is `claim` implied by side /\\ pc ?  -> ('unsat'|'sat'|'unknown', secs, model)"""
        if isinstance(claim, SymBool):
            claim = claim.e
        t = time.time()
        r, m = self._check(list(extra_hyp) + [z3.Not(claim)], timeout_ms or QUERY_TIMEOUT_MS, want_model=True)
        return r, round(time.time() - t, 3), m

    def prove_from_pc(self, claim, timeout_ms=None, extra_hyp=()):
        """Is `claim` a consequence of the branch decisions alone (side constraints dropped: fewer
        hypotheses, sound for unsat)?  For claims that restate what the code decided."""
        if isinstance(claim, SymBool):
            claim = claim.e
        t = time.time()
        s = z3.Solver()
        s.set('timeout', int(timeout_ms or QUERY_TIMEOUT_MS))
        s.add(*self.pc)
        s.add(*extra_hyp)
        s.add(z3.Not(claim))
        r = str(s.check())
        self.solver_time += time.time() - t
        self.queries += 1
        if r == 'unsat':
            return r, round(time.time() - t, 3), None
        r2, secs2, m = self.prove(claim, timeout_ms, extra_hyp=extra_hyp)
        return r2, round(time.time() - t, 3), m

    def prove_abstracted(self, claim, subst, lemmas, timeout_ms=None, fallback_hyp=None, drop_prefixes=()):
        """Let-abstraction (DESIGN 2.3 rule 4): replace the sub-terms subst=[(term, fresh_var)...]
        everywhere in side, pc and claim, add `lemmas` (facts about the fresh variables that were
        proved separately for the replaced terms) and try the smaller query.  The abstraction only
        weakens the hypotheses, so `unsat` is sound; anything else falls back to the full query."""
        if isinstance(claim, SymBool):
            claim = claim.e
        t = time.time()
        s = z3.Solver()
        s.set('timeout', int(timeout_ms or QUERY_TIMEOUT_MS))
        passes = subst if subst and isinstance(subst[0], list) else [subst]

        def sub(t):
            for ps in passes:
                ps = [(a, b) for a, b in ps if not (z3.is_rational_value(a) or z3.is_int_value(a))]
                if ps:
                    t = z3.substitute(t, *ps)
            return t
        hyps = [sub(h) for h in self.side + self.pc] + [sub(l) for l in lemmas]
        # a replaced term that is a numeral (e.g. the constant frame vector of the z-aligned branch) cannot be
        # substituted away: tie its fresh variable to the value instead
        hyps += [b == a for ps in passes for a, b in ps if (z3.is_rational_value(a) or z3.is_int_value(a))]
        goal = z3.Not(sub(claim))
        if drop_prefixes:
            gv = term_vars(goal)
            hyps = [h for h in hyps if not any(v.startswith(tuple(drop_prefixes)) and v not in gv for v in term_vars(h))]
        used = cone_of_influence(goal, hyps, set(self.defs))
        # identical abstracted queries (same text) are decided once per process
        import hashlib
        key = hashlib.sha256(('\n'.join(sorted(h.sexpr() for h in used)) + '\n==>' + goal.sexpr()).encode()).hexdigest()
        if key in _ABSTRACT_MEMO:
            r = _ABSTRACT_MEMO[key]
            self.memo_hits = getattr(self, 'memo_hits', 0) + 1
        else:
            for h in used:
                s.add(h)
            s.add(goal)
            r = str(s.check())
            self.solver_time += time.time() - t
            self.queries += 1
            if r != 'unknown':
                _ABSTRACT_MEMO[key] = r
        if r == 'unsat':
            return r, round(time.time() - t, 3), None
        if fallback_hyp is None:
            r2, secs2, m = self.prove(claim, timeout_ms)
        else:
            # the lemmas are phrased over the fresh variables: tie them to the replaced terms
            ties = [b == a for ps in passes for a, b in ps]
            r2, secs2, m = self.prove(claim, timeout_ms, extra_hyp=list(fallback_hyp) + ties)
        return r2, round(time.time() - t, 3), m

    def reachable(self, timeout_ms=None, inputs=None, rng=None, tries=24):
        """Vacuity guard: the path condition together with the side constraints is satisfiable.
        With `inputs` (name -> z3 var) a few random rational assignments are tried first (cheap:
        all auxiliary variables are then determined)."""
        t = time.time()
        if inputs:
            import random as _r
            rng = rng or _r.Random(0)
            for _ in range(tries):
                extra = []
                for k, v in inputs.items():
                    if z3.is_int(v):
                        extra.append(v == rng.randint(-3, 3))
                    else:
                        extra.append(v == realval(fractions.Fraction(rng.randint(-64, 64), 16)))
                r, m = self._check(extra, 10000, want_model=True)
                if r == 'sat':
                    return r, round(time.time() - t, 3), m
        r, m = self._check([], timeout_ms or QUERY_TIMEOUT_MS, want_model=True)
        return r, round(time.time() - t, 3), m


def explore(fn, max_paths=2000, on_abort=None, max_seconds=None):
    """Enumerate the paths of fn() by re-execution.  Yields (ctx, result, aborted_exception).
    Budget is raised when max_paths (or max_seconds of wall time) is used up with paths still pending: the caller
    reports the exploration as incomplete (inconclusive), never as a pass."""
    stack = [([], None)]
    n = 0
    t_start = time.time()
    while stack:
        prefix, wit0 = stack.pop()
        ctx = Ctx(prefix)
        ctx.witness = wit0
        Ctx.cur = ctx
        exc = None
        res = None
        try:
            res = fn(ctx)
        except PathAbort as e:
            exc = e
        n += 1
        for i in range(len(prefix), len(ctx.decisions)):
            if i >= len(ctx.pc):
                break
            alt = ctx.decisions[:i] + [not ctx.decisions[i]]
            r, m = ctx._check([z3.Not(ctx.pc[i])], BRANCH_TIMEOUT_MS, want_model=True, upto=i)
            if r != 'unsat':
                stack.append((alt, ctx._witness_from_model(m) if r == 'sat' else None))
        yield ctx, res, exc
        if n >= max_paths and stack:
            raise Budget('path budget %d exhausted with %d pending' % (max_paths, len(stack)))
        if max_seconds is not None and stack and time.time() - t_start > max_seconds:
            raise Budget('time budget %ds exhausted after %d paths with %d pending' % (max_seconds, n, len(stack)))
    Ctx.cur = None


# ------------------------------------------------------------------------------------------
def term_vars(t, cache=None):
    """names of the uninterpreted constants of a z3 term"""
    out = set()
    seen = set()
    stack = [t]
    while stack:
        x = stack.pop()
        i = x.get_id()
        if i in seen:
            continue
        seen.add(i)
        if z3.is_const(x) and x.decl().kind() == z3.Z3_OP_UNINTERPRETED:
            out.add(x.decl().name())
        else:
            stack.extend(x.children())
    return out


def cone_of_influence(goal, hyps, defined=frozenset()):
    """hypotheses connected to the goal through shared variables (dropping the others only
    weakens the hypotheses: sound for unsat).  A hypothesis that mentions an auxiliary defined
    variable (sqrt result...) joins only once that variable is live."""
    hv = [(h, term_vars(h)) for h in hyps]
    live = set(term_vars(goal))
    keep = [False] * len(hv)
    changed = True
    while changed:
        changed = False
        for k, (h, vs) in enumerate(hv):
            dv = vs & defined
            if dv and not (dv & live):
                continue
            if not keep[k] and (vs & live or not vs):
                keep[k] = True
                if not vs <= live:
                    live |= vs
                changed = True
    return [h for k, (h, vs) in enumerate(hv) if keep[k]]


def frac_of_float(x):
    return fractions.Fraction(float(x))


def realval(x):
    """Exact z3 value of a python number (floats enter as their exact binary value)."""
    if isinstance(x, (bool, np.bool_)):
        return z3.RealVal(1 if x else 0)
    if isinstance(x, (int, np.integer)):
        return z3.RealVal(int(x))
    if isinstance(x, fractions.Fraction):
        return z3.RealVal(str(x))
    if isinstance(x, (float, np.floating)):
        f = fractions.Fraction(float(x))
        return z3.RealVal("%d/%d" % (f.numerator, f.denominator))
    raise TypeError(type(x))


def _lift(x):
    if isinstance(x, SymReal):
        return x.e
    if isinstance(x, SymInt):
        return z3.ToReal(x.e)
    if isinstance(x, SymBool):
        return z3.If(x.e, z3.RealVal(1), z3.RealVal(0))
    if isinstance(x, z3.ArithRef):
        return z3.ToReal(x) if z3.is_int(x) else x
    return realval(x)


class SymBool:
    __slots__ = ('e',)

    def __init__(self, e):
        self.e = e

    def __bool__(self):
        return Ctx.cur.branch(self.e)

    def __invert__(self):
        return SymBool(z3.Not(self.e))

    def _o(self, o):
        return o.e if isinstance(o, SymBool) else z3.BoolVal(bool(o))

    def __and__(self, o):
        return SymBool(z3.And(self.e, self._o(o)))

    __rand__ = __and__

    def __or__(self, o):
        return SymBool(z3.Or(self.e, self._o(o)))

    __ror__ = __or__

    def __eq__(self, o):
        return SymBool(self.e == self._o(o))

    def __ne__(self, o):
        return SymBool(self.e != self._o(o))

    __hash__ = None

    def __repr__(self):
        return "SymBool(%s)" % self.e


class SymReal:
    __slots__ = ('e',)

    def __init__(self, e):
        self.e = e

    def _bin(self, o, f):
        if isinstance(o, np.ndarray):
            return NotImplemented
        try:
            oe = _lift(o)
        except TypeError:
            return NotImplemented
        return SymReal(f(self.e, oe))

    def __add__(self, o): return self._bin(o, lambda a, b: a + b)
    def __radd__(self, o): return self._bin(o, lambda a, b: b + a)
    def __sub__(self, o): return self._bin(o, lambda a, b: a - b)
    def __rsub__(self, o): return self._bin(o, lambda a, b: b - a)
    def __mul__(self, o): return self._bin(o, lambda a, b: a * b)
    def __rmul__(self, o): return self._bin(o, lambda a, b: b * a)

    def __truediv__(self, o):
        if isinstance(o, np.ndarray):
            return NotImplemented
        try:
            oe = _lift(o)
        except TypeError:
            return NotImplemented
        return _divide(self.e, oe)

    def __rtruediv__(self, o):
        if isinstance(o, np.ndarray):
            return NotImplemented
        try:
            oe = _lift(o)
        except TypeError:
            return NotImplemented
        return _divide(oe, self.e)

    def __neg__(self): return SymReal(-self.e)
    def __pos__(self): return self

    def __abs__(self):
        return SymReal(z3.If(self.e >= 0, self.e, -self.e))

    def __pow__(self, k):
        if isinstance(k, (int, np.integer)) and k >= 0:
            r = z3.RealVal(1)
            for _ in range(int(k)):
                r = r * self.e
            return SymReal(r)
        if isinstance(k, (float, np.floating)) and float(k) == 0.5:
            return self.sqrt()
        if isinstance(k, (float, np.floating)) and float(k) == int(k) and k >= 0:
            return self.__pow__(int(k))
        return NotImplemented

    def __eq__(self, o):
        try:
            return SymBool(self.e == _lift(o))
        except TypeError:
            return NotImplemented

    def __ne__(self, o):
        try:
            return SymBool(self.e != _lift(o))
        except TypeError:
            return NotImplemented

    def __lt__(self, o): return SymBool(self.e < _lift(o))
    def __le__(self, o): return SymBool(self.e <= _lift(o))
    def __gt__(self, o): return SymBool(self.e > _lift(o))
    def __ge__(self, o): return SymBool(self.e >= _lift(o))

    def __bool__(self):
        return Ctx.cur.branch(self.e != 0)

    __hash__ = None

    def __float__(self):
        if FLOAT_FALLBACK is not None:
            # only for harnesses that stub out progress output: the formatted number is a placeholder
            return FLOAT_FALLBACK
        raise TypeError('SymReal cannot be realised as float (compiled-code boundary reached)')

    # numpy calls the method of the same name on the elements of object arrays
    def sqrt(self):
        c = Ctx.cur
        se = z3.simplify(self.e)
        if z3.is_rational_value(se):
            fr = fractions.Fraction(se.numerator_as_long(), se.denominator_as_long())
            import math
            n, d = math.isqrt(fr.numerator) if fr.numerator >= 0 else -1, math.isqrt(fr.denominator)
            if n >= 0 and n * n == fr.numerator and d * d == fr.denominator:
                return SymReal(realval(fractions.Fraction(n, d)))
        key = se.sexpr()
        for (k0, e0, r0) in c.sqrts:
            if k0 == key:
                return SymReal(r0)
        r = c.freshvar('sqrt')
        # raw (unsimplified) radicand: keeps sub-terms intact for let-abstraction by substitution
        c.side += [r >= 0, r * r == self.e]
        c.defs[r.decl().name()] = self.e      # raw radicand of this sqrt variable
        fs = radicand_factors(c, r)
        if fs:
            # redundant consequence (a sum of squares vanishes iff every term does): spares the solver a
            # nonlinear argument when it prunes the 'norm == 0' sibling of a normalisation
            c.side.append((r == 0) == z3.And(*[f == 0 for f in fs]))
        c.sqrts.append((key, se, r))
        return SymReal(r)

    def cos(self):
        return SymReal(_trig(self.e)[0])

    def sin(self):
        return SymReal(_trig(self.e)[1])

    def rint(self):
        c = Ctx.cur
        k = c.freshvar('rint', 'int')
        kr = z3.ToReal(k)
        half = z3.RealVal('1/2')
        d = self.e - kr
        # ties: either neighbour allowed (over-approximation of round-half-even: sound for proofs;
        # harnesses that need a definite value assume |x-k| < 1/2, as the properties do)
        c.side += [d <= half, d >= -half]
        c.log.append(('rint', self.e, k))
        return SymReal(kr)

    def conjugate(self):
        return self

    def hypot(self, other):
        o = other if isinstance(other, SymReal) else SymReal(_lift(other))
        return (self * self + o * o).sqrt()

    def square(self):
        return self * self

    def __round__(self, ndigits=None):
        # round(x, n): nearest multiple of 10**-n (ties: either neighbour, over-approximation as in rint)
        if ndigits is None or int(ndigits) == 0:
            return self.rint()
        # round(x, n), n > 0: any real within half a unit of the n-th decimal (integrality of the scaled value is
        # dropped: an over-approximation that keeps the query in pure real arithmetic; counterexamples are replayed)
        c = Ctx.cur
        q = c.freshvar('round')
        half = realval(fractions.Fraction(1, 2 * 10 ** int(ndigits)))
        c.side += [q - self.e <= half, self.e - q <= half]
        return SymReal(q)

    def _floorlike(self, up):
        c = Ctx.cur
        k = c.freshvar('floor', 'int')
        kr = z3.ToReal(k)
        c.side += ([kr >= self.e, kr < self.e + 1] if up else [kr <= self.e, self.e < kr + 1])
        return SymReal(kr)

    def __floor__(self):
        return self._floorlike(False)

    def __ceil__(self):
        return self._floorlike(True)

    def floor(self):
        return self._floorlike(False)

    def ceil(self):
        return self._floorlike(True)

    def __repr__(self):
        return "SymReal(%s)" % z3.simplify(self.e)


def _divide(num, den):
    c = Ctx.cur
    ok = c.branch(den != 0)
    if not ok:
        c.notes['div_by_zero'] = True
        raise SymZeroDivision('symbolic division by zero')
    if z3.is_rational_value(den) or z3.is_rational_value(z3.simplify(den)):
        return SymReal(num / den)
    # x / y is kept as x * (1/y): the reciprocal is one shared sub-term (z3 purifies it into a single
    # auxiliary variable; harnesses can let-abstract it)
    return SymReal(num * (z3.RealVal(1) / den))


class SymZeroDivision(PathAbort):
    """The denominator is zero on this path: numpy would produce nan/inf.  The harness decides
    whether such a path is inside the property's precondition (=> finiteness violation candidate)."""


def _trig(e):
    """cos/sin of an angle as a fresh pair (c, s) with c^2+s^2 = 1, keyed by the syntactic angle;
    -theta maps to (c, -s)."""
    c = Ctx.cur
    e = z3.simplify(e)
    k = e.sexpr()
    if k in c.trig:
        return c.trig[k]
    # negated angle?
    ne = z3.simplify(-e)
    nk = ne.sexpr()
    if nk in c.trig:
        cv, sv = c.trig[nk]
        c.trig[k] = (cv, -sv)
        return c.trig[k]
    if z3.is_rational_value(e) and e.numerator_as_long() == 0:
        c.trig[k] = (z3.RealVal(1), z3.RealVal(0))
        return c.trig[k]
    cv, sv = c.freshvar('cos'), c.freshvar('sin')
    c.side.append(cv * cv + sv * sv == 1)
    c.trig[k] = (cv, sv)
    return c.trig[k]


def declare_angle(theta_e, cv, sv):
    """Register (cv, sv) as cos/sin of the angle term theta_e (harness supplies the pair)."""
    c = Ctx.cur
    c.trig[z3.simplify(theta_e).sexpr()] = (cv, sv)


class SymInt:
    """z3 Int.  Comparisons give SymBool; use as a python index/hash key goes through
    bounded case split (`concretize`)."""
    __slots__ = ('e', 'lo', 'hi')

    def __init__(self, e, lo=None, hi=None):
        self.e = e
        self.lo = lo
        self.hi = hi

    @staticmethod
    def _l(o):
        if isinstance(o, SymInt):
            return o.e
        if isinstance(o, (int, np.integer)):
            return z3.IntVal(int(o))
        raise TypeError(type(o))

    def _bin(self, o, f):
        try:
            oe = self._l(o)
        except TypeError:
            return NotImplemented
        return SymInt(f(self.e, oe))

    def __add__(self, o): return self._bin(o, lambda a, b: a + b)
    def __radd__(self, o): return self._bin(o, lambda a, b: b + a)
    def __sub__(self, o): return self._bin(o, lambda a, b: a - b)
    def __rsub__(self, o): return self._bin(o, lambda a, b: b - a)
    def __mul__(self, o): return self._bin(o, lambda a, b: a * b)
    def __rmul__(self, o): return self._bin(o, lambda a, b: b * a)
    def __floordiv__(self, o): return self._bin(o, lambda a, b: a / b)   # z3 Int '/' is floor for b>0
    def __mod__(self, o): return self._bin(o, lambda a, b: a % b)
    def __neg__(self): return SymInt(-self.e)

    def _cmp(self, o, f):
        try:
            return SymBool(f(self.e, self._l(o)))
        except TypeError:
            return NotImplemented

    def __lt__(self, o): return self._cmp(o, lambda a, b: a < b)
    def __le__(self, o): return self._cmp(o, lambda a, b: a <= b)
    def __gt__(self, o): return self._cmp(o, lambda a, b: a > b)
    def __ge__(self, o): return self._cmp(o, lambda a, b: a >= b)
    def __eq__(self, o): return self._cmp(o, lambda a, b: a == b)
    def __ne__(self, o): return self._cmp(o, lambda a, b: a != b)

    def __hash__(self):
        # used as a dict / set key by the code under analysis: bounded case split
        return hash(self.concretize())

    def __bool__(self):
        return Ctx.cur.branch(self.e != 0)

    def concretize(self, lo=None, hi=None):
        lo = self.lo if lo is None else lo
        hi = self.hi if hi is None else hi
        for v in range(lo, hi + 1):
            if Ctx.cur.branch(self.e == v):
                return v
        raise PathAbort('SymInt outside [%d,%d]' % (lo, hi))

    def __index__(self):
        return self.concretize()

    def __int__(self):
        return self.concretize()

    def __repr__(self):
        return "SymInt(%s)" % self.e


# ------------------------------------------------------------------------------------------
def sym_vec(name, n=3):
    return np.array([SymReal(z3.Real("%s%d" % (name, i))) for i in range(n)], dtype=object)


def expr(x):
    """z3 Real term of a SymReal / number."""
    return _lift(x)


def vec_eq(u, v):
    return z3.And(*[expr(a) == expr(b) for a, b in zip(list(u), list(v))])


def dot3(u, v):
    return sum((expr(a) * expr(b) for a, b in zip(list(u), list(v))), z3.RealVal(0))


def model_value(m, v, digits=40):
    """python Fraction (exact) or float (algebraic, approximated) of term v in model m."""
    r = m.eval(v, model_completion=True)
    if z3.is_rational_value(r):
        return fractions.Fraction(r.numerator_as_long(), r.denominator_as_long())
    if z3.is_int_value(r):
        return fractions.Fraction(r.as_long())
    if z3.is_algebraic_value(r):
        a = r.approx(digits)
        return fractions.Fraction(a.numerator_as_long(), a.denominator_as_long())
    if z3.is_true(r):
        return True
    if z3.is_false(r):
        return False
    raise ValueError('cannot evaluate %s -> %s' % (v, r))


# ------------------------------------------------------------------------------------------
def concretize_inputs(ctx, extra, inputs, model, grids=(1, 2, 8)):
    """Turn a sat model into concrete input values, preferring small dyadic rationals (exact in
    binary64) so that exact-zero branch conditions survive the replay.
    inputs: dict name -> z3 var.  extra: list of z3 constraints that were part of the sat query.
    Returns dict name -> [numerator, denominator]."""
    vals = {k: model_value(model, v) for k, v in inputs.items()}
    for g in grids:
        snapped = {k: fractions.Fraction(round(v * g), g) if not isinstance(v, bool) else v for k, v in vals.items()}
        s = z3.Solver()
        s.set('timeout', 10000)
        s.add(*ctx.side)
        s.add(*ctx.pc)
        s.add(*extra)
        for k, v in inputs.items():
            sv = snapped[k]
            if isinstance(sv, bool):
                s.add(v == sv)
            elif z3.is_int(v):
                s.add(v == int(sv))
            else:
                s.add(v == realval(sv))
        if str(s.check()) == 'sat':
            vals = snapped
            break
    out = {}
    for k, v in vals.items():
        if isinstance(v, bool):
            out[k] = v
        else:
            out[k] = [v.numerator, v.denominator]
    return out


def fval(x):
    """float of a [num, den] pair / number as stored in a witness."""
    if isinstance(x, (list, tuple)):
        return x[0] / x[1]
    return float(x)


def eval_terms(ctx, inputs, values, terms, timeout_ms=20000):
    """Translator validation: fix the inputs to `values` (dict name->Fraction), solve the side
    constraints for the auxiliary variables and return the float value of each term (or None if
    the assignment does not follow this path)."""
    s = z3.Solver()
    s.set('timeout', timeout_ms)
    s.add(*ctx.side)
    s.add(*ctx.pc)
    for k, v in inputs.items():
        s.add(v == realval(values[k]))
    if str(s.check()) != 'sat':
        return None
    m = s.model()
    return [float(model_value(m, t, 30)) for t in terms]


def twin_record(ctx, cap, inputs=None, rng=None):
    """Reachability twin of a path: 'twin' (reachable: a model exists), 'twin-fail' (the path /
    assumptions are unsatisfiable: every obligation on it would pass vacuously -> harness error),
    'twin-unknown' (solver limit: reported, lowers assurance, not an error)."""
    r, secs, m = ctx.reachable(cap, inputs=inputs, rng=rng)
    st = {'sat': 'twin', 'unsat': 'twin-fail'}.get(r, 'twin-unknown')
    return {'name': 'reachability-twin', 'status': st, 'secs': secs}


def radicand_factors(ctx, r):
    """For a sqrt variable r whose raw radicand is t0*t0 + t1*t1 + ... return [t0, t1, ...] (the
    components of the vector whose norm r is), else None."""
    e = expr(r)
    if not (z3.is_const(e) and e.decl().name() in ctx.defs):
        return None
    rad = ctx.defs[e.decl().name()]
    adds = []
    st = [rad]
    while st:
        x = st.pop()
        if z3.is_add(x):
            st.extend(reversed(x.children()))
        else:
            adds.append(x)
    out = []
    for a in adds:
        if z3.is_rational_value(a) and a.numerator_as_long() == 0:
            continue
        if z3.is_mul(a) and len(a.children()) == 2 and z3.eq(a.children()[0], a.children()[1]):
            out.append(a.children()[0])
        else:
            return None
    return out
