"""numpy proxy and stubs installed (in the harness process only) as the module-global `np`
of the gaddlemaps modules under analysis.  Everything not listed forwards to the real numpy."""
import numpy as _np
import z3
from .core import Ctx, SymReal, SymBool, SymInt, realval, expr


def has_sym(obj):
    if isinstance(obj, (SymReal, SymBool, SymInt)):
        return True
    if isinstance(obj, _np.ndarray):
        return obj.dtype == object
    if isinstance(obj, (list, tuple)):
        return any(has_sym(o) for o in obj)
    return False


_DTYPE_GUARDED = {'asarray', 'asanyarray', 'ascontiguousarray', 'asfarray', 'zeros_like', 'empty_like', 'ones_like', 'full_like',
                  'atleast_1d', 'atleast_2d', 'stack', 'vstack', 'hstack', 'concatenate', 'copy', 'sum', 'mean', 'cumsum', 'dot', 'fromiter'}


def _is_dtype_like(x):
    if isinstance(x, type):
        return x is not object and (x in (float, int, complex) or issubclass(x, _np.generic))
    if isinstance(x, _np.dtype):
        return x != _np.dtype(object)
    return isinstance(x, str) and x[:1] in 'fdi'


class RandomStub:
    """np.random replacement: every draw is a fresh symbolic input constrained only to the
    documented support.  Draws are logged in ctx.log as ('draw', kind, term(s))."""

    def __init__(self, choice_hook=None):
        self.choice_hook = choice_hook

    def _fresh(self, base, n=None, lo=None, hi=None, hi_strict=True):
        c = Ctx.cur

        def one():
            v = c.freshvar(base)
            if lo is not None:
                c.side.append(v >= realval(lo))
            if hi is not None:
                c.side.append(v < realval(hi) if hi_strict else v <= realval(hi))
            return SymReal(v)
        if n is None:
            r = one()
            c.log.append(('draw', base, r))
            return r
        arr = _np.array([one() for _ in range(int(n))], dtype=object)
        c.log.append(('draw', base, arr))
        return arr

    def rand(self, *shape):
        if not shape:
            return self._fresh('rand', None, 0, 1)
        assert len(shape) == 1
        return self._fresh('rand', shape[0], 0, 1)

    def uniform(self, low=0.0, high=1.0, size=None):
        return self._fresh('unif', size, low, high)

    def normal(self, loc=0.0, scale=1.0, size=None):
        # support of a normal variate: all reals (scale enters only the distribution)
        c = Ctx.cur
        c.log.append(('normal-args', loc, scale))
        return self._fresh('norm', size)

    def randint(self, n):
        c = Ctx.cur
        v = c.freshvar('randint', 'int')
        c.side += [v >= 0, v < int(n)]
        si = SymInt(v, 0, int(n) - 1)
        c.log.append(('draw', 'randint', si))
        return si.concretize()

    def choice(self, seq):
        c = Ctx.cur
        seq = list(seq)
        v = c.freshvar('choice', 'int')
        c.side += [v >= 0, v < len(seq)]
        i = SymInt(v, 0, len(seq) - 1).concretize()
        c.log.append(('draw', 'choice', seq[i]))
        return seq[i]


class _Linalg:
    def __getattr__(self, n):
        return getattr(_np.linalg, n)

    @staticmethod
    def inv(M):
        """adjugate / determinant (the LAPACK boundary).  det != 0 is forked by the division."""
        if isinstance(M, _np.ndarray) and M.dtype == object:
            m = M

            def cof(i, j):
                r = [a for a in range(3) if a != i]
                cc = [b for b in range(3) if b != j]
                v = m[r[0], cc[0]] * m[r[1], cc[1]] - m[r[0], cc[1]] * m[r[1], cc[0]]
                return v if (i + j) % 2 == 0 else -v
            det = m[0, 0] * cof(0, 0) + m[0, 1] * cof(0, 1) + m[0, 2] * cof(0, 2)
            if isinstance(det, SymReal):
                det = SymReal(z3.simplify(det.e))
            X = _np.empty((3, 3), dtype=object)
            for i in range(3):
                for j in range(3):
                    cj = cof(j, i)
                    if isinstance(cj, SymReal):
                        cj = SymReal(z3.simplify(cj.e))
                        if z3.is_rational_value(cj.e) and cj.e.numerator_as_long() == 0:
                            cj = 0
                    X[i, j] = (cj / det) if not (isinstance(cj, (int, float)) and cj == 0) else 0
            return X
        return _np.linalg.inv(M)


class NPProxy:
    """Forwards to numpy; keeps symbolic elements in dtype=object arrays."""

    def __init__(self, random=None):
        self.linalg = _Linalg()
        self.random = random if random is not None else _np.random

    def __getattr__(self, n):
        v = getattr(_np, n)
        if n in _DTYPE_GUARDED:
            def guarded(*args, **kw):
                # a float dtype requested for data that holds symbolic scalars: keep dtype=object
                if has_sym(args):
                    if 'dtype' in kw and kw['dtype'] is not None and kw['dtype'] is not object:
                        kw = dict(kw, dtype=object)
                    elif len(args) >= 2 and _is_dtype_like(args[1]) and n in ('array', 'asarray', 'asanyarray', 'ascontiguousarray', 'asfarray'):
                        args = (args[0], object) + tuple(args[2:])
                return v(*args, **kw)
            return guarded
        return v

    def array(self, obj, dtype=None, **kw):
        if has_sym(obj):
            return _np.array(obj, dtype=object, **kw)
        return _np.array(obj, dtype=dtype, **kw)

    def any(self, a, *args, **kw):
        if isinstance(a, _np.ndarray) and a.dtype == object and not args and not kw:
            es = []
            for x in a.ravel():
                if isinstance(x, SymReal):
                    es.append(x.e != 0)
                elif isinstance(x, SymBool):
                    es.append(x.e)
                else:
                    es.append(z3.BoolVal(bool(x)))
            return SymBool(z3.Or(*es))
        return _np.any(a, *args, **kw)

    def all(self, a, *args, **kw):
        if isinstance(a, _np.ndarray) and a.dtype == object and not args and not kw:
            es = []
            for x in a.ravel():
                if isinstance(x, SymReal):
                    es.append(x.e != 0)
                elif isinstance(x, SymBool):
                    es.append(x.e)
                else:
                    es.append(z3.BoolVal(bool(x)))
            return SymBool(z3.And(*es))
        return _np.all(a, *args, **kw)

    def isclose(self, a, b, rtol=1e-05, atol=1e-08, equal_nan=False):
        # numpy's definition over the reals: |a - b| <= atol + rtol * |b| (no NaN / inf among reals)
        if not has_sym((a, b)):
            return _np.isclose(a, b, rtol=rtol, atol=atol, equal_nan=equal_nan)
        A, B = _np.broadcast_arrays(_np.asarray(a, dtype=object), _np.asarray(b, dtype=object))
        out = _np.empty(A.shape, dtype=object)
        zabs = lambda e: z3.If(e >= 0, e, -e)
        for idx in _np.ndindex(A.shape):
            x, y = A[idx], B[idx]
            ex = x.e if isinstance(x, SymReal) else realval(x)
            ey = y.e if isinstance(y, SymReal) else realval(y)
            out[idx] = SymBool(zabs(ex - ey) <= realval(atol) + realval(rtol) * zabs(ey))
        return out if out.shape else out[()]

    def allclose(self, a, b, rtol=1e-05, atol=1e-08, equal_nan=False):
        if not has_sym((a, b)):
            return _np.allclose(a, b, rtol=rtol, atol=atol, equal_nan=equal_nan)
        r = self.isclose(a, b, rtol=rtol, atol=atol)
        if isinstance(r, SymBool):
            return r
        return SymBool(z3.And(*[x.e for x in r.ravel()]))

    def round(self, a, *args, **kw):
        if isinstance(a, _np.ndarray) and a.dtype == object:
            out = _np.empty(a.shape, dtype=object)
            for idx, x in _np.ndenumerate(a):
                out[idx] = x.rint() if isinstance(x, SymReal) else _np.round(x)
            return out
        if isinstance(a, SymReal):
            return a.rint()
        return _np.round(a, *args, **kw)

    def sqrt(self, a):
        if isinstance(a, SymReal):
            return a.sqrt()
        return _np.sqrt(a)

    def cos(self, a):
        if isinstance(a, SymReal):
            return a.cos()
        return _np.cos(a)

    def sin(self, a):
        if isinstance(a, SymReal):
            return a.sin()
        return _np.sin(a)


def sym_euclidean(u, v):
    d = _np.asarray(u) - _np.asarray(v)
    s = d[0] * d[0] + d[1] * d[1] + d[2] * d[2]
    if isinstance(s, SymReal):
        return s.sqrt()
    return _np.sqrt(s)


def sym_sqdist(u, v):
    d = _np.asarray(u) - _np.asarray(v)
    return d[0] * d[0] + d[1] * d[1] + d[2] * d[2]


def sym_cdist(A, B, metric='euclidean'):
    assert metric == 'sqeuclidean', metric
    A = _np.asarray(A)
    B = _np.asarray(B)
    if A.dtype != object and B.dtype != object:
        from scipy.spatial.distance import cdist
        return cdist(A, B, metric)
    out = _np.empty((len(A), len(B)), dtype=object)
    for i in range(len(A)):
        for j in range(len(B)):
            out[i, j] = sym_sqdist(A[i], B[j])
    return out


_SAVED = {}


def install(random=None, modules=None):
    """Replace module globals of the gaddlemaps modules (harness process only)."""
    import importlib
    proxy = NPProxy(random=random)
    names = modules or [
        'gaddlemaps._auxilliary', 'gaddlemaps._exchage_map', 'gaddlemaps._backend',
        'gaddlemaps._transform_molecule', 'gaddlemaps._alignment',
        'gaddlemaps.components._residue', 'gaddlemaps.components._components',
        'gaddlemaps.components._system']
    for mn in names:
        mod = importlib.import_module(mn)
        for attr, val in (('np', proxy), ('numpy', proxy)):
            if hasattr(mod, attr) and getattr(mod, attr) is _np or isinstance(getattr(mod, attr, None), NPProxy):
                _SAVED.setdefault((mn, attr), _np)
                setattr(mod, attr, val)
        if hasattr(mod, 'euclidean'):
            _SAVED.setdefault((mn, 'euclidean'), getattr(mod, 'euclidean'))
            mod.euclidean = sym_euclidean
        if hasattr(mod, 'cdist'):
            _SAVED.setdefault((mn, 'cdist'), getattr(mod, 'cdist'))
            mod.cdist = sym_cdist
    return proxy


def uninstall():
    import importlib
    for (mn, attr), val in list(_SAVED.items()):
        setattr(importlib.import_module(mn), attr, val)
    _SAVED.clear()
