#!/usr/bin/env python3
"""Regenerates /verif/MANIFEST.json from the table below (kept valid at all times)."""
import json, os
HERE = os.path.dirname(os.path.dirname(os.path.abspath(__file__)))
SYMX = 'bounded symbolic execution of the real Python code on z3 reals/ints (SymX), SMT-decided obligations per path, concrete replay'
CHECKS = {
 'C17': dict(
    text='Every path of the real rotation_matrix and calcule_base is executed on fully symbolic inputs (z3 reals); each law of the '
         'statement is an SMT obligation per path, decided unsat (holds for all reals) or sat (replayed concretely).  No bound on magnitudes; '
         'exact real arithmetic, so binary64 rounding is outside the claim - except for one QF_FP kernel: the statements of calcule_base up to its collinearity '
         'test are re-read from the source, translated to z3 Float64 terms (validated bit for bit against numpy) and the solver is asked for an exactly collinear '
         'triple (0, lam d, d), d integral, that the test misses (this found defect D10).  The real function is also run on every accepted axis dtype.',
    note='Trusted: z3 (unsat answers), the SymX scalar/numpy-object-array semantics (validated on every run against the float code on random '
         'rationals), sqrt/cos/sin encodings (fresh variables with defining polynomial constraints).',
    design='3/C17 and 2.6', technique=SYMX + '; let-abstraction of proven sub-results; AST-to-QF_FP kernel (binary64) for the collinearity test'),
}
CHECKS['C19'] = dict(
    text='Real Residue.distance_to executed on symbolic points/residues and symbolic boxes (any positive orthorhombic edges; lower-triangular '
         'triclinic with free entries; symbolic integer lattice shifts).  Decomposed SMT obligations: returned vector = (f - rint f).B with '
         'f.B = separation; per-axis minimum-image lemma over all integers; symmetry; lattice-shift invariance; inverse-flag agreement.  '
         'Holds for all reals/integers within the stated box shapes; rounding is outside the claim.',
    note='Trusted: z3; adjugate/determinant stand-in for np.linalg.inv; np.round modelled as nearest integer with either choice on exact ties '
         '(obligations that need a definite rounding assume no tie, as the property does).',
    design='3/C19', technique=SYMX + '; mixed Int/Real queries split by let-abstraction')
CHECKS['C07'] = dict(
    text='The real move_mol_atom / find_atom_random_displ run on symbolic coordinates, displacement, bond table (independent positive lengths) '
         'and symbolic random draws, for every labelled tree up to 5 (quick) / 6 (thorough, plus 7-atom families) atoms and every moved atom, '
         'and for cyclic graphs up to 5 atoms (traversal tree read from the real deque traffic).  Each bond-length restoration, the exact '
         'displacement of the moved atom, input immutability and perpendicularity of the random displacement is an SMT obligation per path.',
    note='Trusted: z3; np.random stubs return arbitrary values of the documented support; degenerate paths (coincident atoms in a propagation '
         'step => division by zero) are outside the genericity precondition and are listed, not claimed.',
    design='3/C07', technique=SYMX + '; exhaustive structural enumeration of bond graphs within the bound')
EXM_NOTE = ('Trusted: z3 (unsat answers); SymX scalar semantics; let-abstraction steps (each replaced sub-term is constrained only by facts '
            'proved for it on the same path: weakening, sound for unsat); instantiation of universally quantified lemmas proved in the same run; '
            'molecules are built directly with the real classes (no file parsing). Exact real arithmetic: binary64 rounding outside the claim.')
CHECKS['C01'] = dict(
    text='Real ExchangeMap (with the real calcule_base inside, so collinear / axis-aligned frames are ordinary paths) on symbolic coordinates and '
         'scale, per bond graph within the bound: nearest-anchor choice, the law map(ref)=a+s(p-a) per component and the equivalences table are '
         'SMT obligations on every path; frames are proved orthonormal on the path and then abstracted.',
    note=EXM_NOTE, design='3/C01', technique=SYMX + '; universal frame lemmas + let-abstraction')
CHECKS['C02'] = dict(
    text='(a) real calcule_base executed on an uninterpreted vector sort: rotation/translation equivariance and branch agreement from the rotation '
         'axioms; axioms closed under composition and discharged componentwise for elementary rotations; (b) real __call__ on R.ref+t with a frame '
         'contract stub: map(R ref+t)=R map(ref)+t for a free matrix R; (c) real code end-to-end on 1-, 2-, 3-atom references with symbolic random '
         'draws: distance to the anchor and coordinate along the molecular axis preserved for every argument conformation; (d) real calcule_base '
         'componentwise on a symbolic non-collinear triple P and on R P + T (elementary rotations with symbolic (cos, sin)): frame(R P + T) = R frame(P) '
         'on every feasible pair of paths; (e) no ordering test between two computed quantities that can be exactly equal inside __call__ '
         '(rounding would decide it differently for a reference and its moved copy).',
    note=EXM_NOTE + ' SO(3) is reached through generators (Euler decomposition trusted).', design='3/C02',
    technique=SYMX + '; EUF vector-level execution of calcule_base; contract stub discharged in the same check')
CHECKS['C03'] = dict(
    text='Real ExchangeMap built on symbolic conformation X and applied to an independent symbolic conformation Y: distance to the anchor and '
         'mutual distances of atoms sharing an anchor scale by s (staged SMT obligations through the stored projections), locality by a second call '
         'on a conformation that differs outside (anchor, two lowest-numbered bonded atoms) plus the variable-dependency set of the result term.',
    note=EXM_NOTE, design='3/C03', technique=SYMX + '; state injection of stored projections; universal norm lemmas')
CHECKS['C04'] = dict(
    text='Inductive step from an arbitrary symbolic stale frame state (result = freshly built map, frame condition on the stored state) plus all '
         'operation histories of length <= 2 (quick) / 3 (thorough) over {call, call on another conformation, other species, non-molecule, mutate '
         'construction reference/target} executed on the real objects with symbolic coordinates; equality of results is decided on the terms / by SMT.',
    note=EXM_NOTE + ' Anchors assumed non-collinear here (collinear frames are C01/C02).', design='3/C04',
    technique=SYMX + '; inductive step over symbolic pre-state + bounded history enumeration')
CHECKS['C08'] = dict(
    text='Real Chi2Calculator constructed on symbolic coordinates and called on different symbolic coordinates, for every restraint list within the '
         'bound; every path (which mobile atom is nearest to which fixed atom) is checked against an independently built z3 reference formula; the '
         'distance matrix is abstracted to free non-negative reals (superset of all geometries) with exact-geometry re-execution for counterexamples.',
    note='Trusted: z3; cdist stand-in (exact squared distances or order abstraction); ties between distances in one row excluded; 1.1**k enters as its exact binary64 value.',
    design='3/C08', technique=SYMX + '; order-only abstraction of the distance matrix; differential against a reference model')
FORK = ('bounded symbolic execution of the real code: symbolic integers (z3 Int) for indices / cursors / orders with solver-enumerated feasible values, '
        'coverage of the symbolic ranges proved by a solver query; structural enumeration of layouts within the bound')
CHECKS['C10'] = dict(
    text='(1) the slice arithmetic of _split_list is read from the source and proved for every list length (unbounded integer) and 1..40 parts; (2) real '
         'residue/protein guessers with symbolic offsets: coverage, ranges, order, same-position pairing as SMT obligations; (3) real '
         'Alignment.align_molecules on two-residue molecules with lists of 0..2 (3) symbolic restraint pairs, all hydrogen masks and size orders, optimiser replaced by a recorder; (4) real '
         'Manager option routing with opaque values and rejection of malformed input before any alignment starts.',
    note='Trusted: z3; Python // and % = z3 div/mod for positive divisors; the recorder stands in for the optimiser (its behaviour is C06/C09).',
    design='3/C10', technique='AST-to-SMT kernel over unbounded integers + ' + FORK)
CHECKS['C11'] = dict(
    text='Real System/SystemGro/GroFile/Molecule on in-memory files written by the real writer, for every composition of up to 4 (quick) / 5 (thorough) '
         'molecule instances over three loadable species (multi-residue, repeated residue) and a solvent; load order, index and slice bounds are '
         'symbolic integers; recognised molecules, order, atom runs, names, coordinates, len/composition/indexing/slicing compared with the instances the file '
         'was assembled from; absent topologies must be refused.',
    note='Trusted: z3 for the enumeration/coverage of the symbolic integers; the comparison with the expected instances is concrete on each path.',
    design='3/C11', technique=FORK)
CHECKS['C12'] = dict(
    text='Real SystemGro over the real GroFile on in-memory files for every residue layout within the bound (4 residue kinds incl. equal names with different '
         'sizes); one inductive access step: arbitrary stale cursor (symbolic atom position) then symbolic index / slice, compared with an independent parse; '
         'iteration tiles the file; counts, box, title agree.',
    note='Trusted: as C11. Reachable cursor states = positions at the beginning of an atom line or of the box line (every access seeks before reading).',
    design='3/C12', technique=FORK + '; inductive access step from an arbitrary cursor state')
CHECKS['C13'] = dict(
    text='AST-to-SMT kernels decided for every integer in range: five-digit wrap of atom/residue numbers, width/decimals inference of the reader vs the '
         'writer\'s line length, expected line length, count back-fill offset, seek_atom offsets.  CrossHair (bounded refuter) on the real '
         'parse_atomlist/parse_atomline with symbolic ints and short symbolic names.  Whole files written and re-read by the real GroFile, contents chosen by '
         'symbolic integers (number classes, names, velocities, declared/deferred count, box kind, decimals 1..6, non-ASCII titles; all 512 zero/non-zero patterns of the 3x3 box), coverage proved.',
    note='Trusted: z3; Python str.format width semantics; CrossHair results are reported as confirmed / no counterexample within the budget.',
    design='3/C13', technique='AST-to-SMT kernels over the integers + CrossHair symbolic execution of the string code')
CHECKS['C14'] = dict(
    text='Real GroFile reader executed on a file model whose end-of-file is one symbolic integer: every byte-level truncation point of files written by the '
         'real writer (1..4 atoms quick, ..6 and 40 thorough; count declared/deferred; velocities) lies on an explored path; accepted paths must lie inside '
         'the box line and return the complete records; coverage of 0..len proved by the solver; writer crash points = prefixes of the real write/seek log; '
         'byte-level truncation (symbolic truncation byte, one path per value) of real files on disk with LF / CRLF line ends, non-ASCII names and zero atoms.',
    note='Trusted: z3; the file model (readline/seek/tell on a prefix of the complete content), validated against the complete file on every run.',
    design='3/C14', technique='symbolic end-of-file (z3 Int) under the real reader; path-condition coverage query')
CHECKS['C15'] = dict(
    text='Every graph on <= 4 atoms (and a solver-chosen subset / all on 5 atoms) is written as topology text with non-contiguous atom numbers, bonds spread over '
         'three sections and interleaved comment / blank / preprocessor lines, read by the real reader from memory; name, atoms, symmetric renumbered bond sets, '
         'are_connected (vs breadth-first oracle), copy independence checked on every path; the nesting depth of the connectivity walk must not grow with the '
         'graph (violations replayed on a 3000-atom chain); CrossHair with symbolic atom numbers and bond endpoints.',
    note='Trusted: z3 for the enumeration of the symbolic edge bits and its coverage; CrossHair as bounded refuter.', design='3/C15',
    technique=FORK + ' + CrossHair on the text reader + stack-depth obligation')
CHECKS['C16'] = dict(
    text='CrossHair on the real ItpLine / ItpSection with symbolic lines (<= 5 characters) against an independent reference reading; real ItpFile read-write-read-write '
         'for every sequence of <= 3 (quick) / 4 (thorough) section headers over two names (repeats included) and line templates chosen by symbolic integers; the 16 shipped '
         'topologies as translator validation of the reference reader.',
    note='Trusted: the 12-line reference classification of a raw .itp line (kind, tokens, comment); CrossHair results reported as confirmed / no counterexample within budget.',
    design='3/C16', technique='CrossHair symbolic execution of the real line/section classes + ' + FORK)
CHECKS['C18'] = dict(
    text='All operation sequences of length <= 3 (quick) / 4 (thorough) over 12 operations applied to either side of an (original, copy) pair for 9 copy routes (molecules of 1 residue and of 2+2+1 atoms in 3 residues), on symbolic '
         'coordinates / velocities / displacement / rotation: the untouched side keeps its symbolic terms, view assignments write through, and move / move_to / rotate '
         'satisfy their rigid-body laws as SMT obligations (exact reals).',
    note='Trusted: z3; elementary rotations generate SO(3); isolation is decided by identity of the symbolic terms.', design='3/C18',
    technique=SYMX + '; exhaustive operation sequences within the bound')
CHECKS['C06'] = dict(
    text='Glue: the real Alignment (setters, align_molecules, remove_hydrogens, bonds_distance, are_connected) on symbolic coordinates for both size orders and ties, hydrogen masks, '
         'restraint lists and deformation subsets, with the optimiser replaced by a recorder returning fresh symbolic coordinates: who is translated and by what, what the optimiser '
         'receives, where its result is written, caller molecules untouched - as SMT / term-identity obligations.  Step: one iteration of the real Monte-Carlo loop with symbolic '
         'draws: translation and rotation proposals preserve all pairwise distances (rotation matrix proved orthogonal on the path).  Stub validation: the symbolic '
         'draws stand for numpy\'s global stream, so the package sources are scanned for any other entropy source (a hit is confirmed by two real runs from one seed).',
    note='Trusted: z3; the recorder contract (same shape); the single-atom move is decided in C07 and the loop bookkeeping in C09; bit-identical repeatability for a seed is outside the claim.',
    design='3/C06', technique=SYMX + '; contract stub for the optimiser + one-step invariant of the real loop')
CHECKS['C09'] = dict(
    text='Real _minimize_molecules and accept_metropolis with every random draw symbolic and the overlap measure an uninterpreted positive energy: every path through <= 3 (quick) / '
         '4 (thorough) iterations; the harness replays the specified bookkeeping and the solver decides, per iteration, the energy pair handed to the rule, the Metropolis decision, '
         'the proposal transformation and its kind, the counter/reset logic, the exact stop and the returned configuration.',
    note='Trusted: z3; stubs for Chi2Calculator (C08), move_mol_atom (C07) and progress output; 0.01 enters as its binary64 value; energies > 0.',
    design='3/C09', technique=SYMX + '; randomness as symbolic input; bounded unrolling of the loop')
CHECKS['C05'] = dict(
    text='Real Manager (constructor, add_end_molecules, calculate_exchange_maps, extrapolate_system) with real Alignment/ExchangeMap objects around a stand-in system '
         'yielding real Molecules with symbolic coordinates; species per slot and the subset of species with an end molecule are symbolic integers; writer replaced '
         'by a recorder.  Per path: exactly the mapped molecules in input order, numbering 1..N, residue numbers of the input, coordinates equal to the species map '
         'applied to the molecule (SMT / term identity), title and box forwarded, SystemError and no file when a map is missing.',
    note='Trusted: z3; frame construction replaced by a functional contract stub (its real behaviour is C01/C02/C17); the coordinate format precision and re-reading are C13/C14.',
    design='3/C05', technique=SYMX + '; symbolic composition integers; recording writer')
CHECKS['C20'] = dict(
    text='(a) real sort_molecules / classify_files on generated candidate files with every set of the module iterating in a symbolic permutation order (all orders a hash seed '
         'could produce): same, intended assignment on every path, no failure, explicit species not re-added; (b) real auto_map against recording stand-ins with an opaque '
         'symbolic scale: call trace = library workflow and default output path.  The byte equality of CLI and library output for a seed is outside the technique.',
    note='Trusted: z3 for the enumeration of permutation indices; the recorders stand for Manager / Molecule.from_files / read_topology (their behaviour is C05, C11, C15).',
    design='3/C20 and section 5', technique=FORK + '; symbolic set iteration order; call-trace equality against recording stubs')
NOT_YET = {}
def main():
    props = [json.loads(l) for l in open(os.path.join(HERE, 'properties.jsonl'))]
    checks = []
    na = []
    extra_na = json.load(open(os.path.join(HERE, 'tools', 'not_applicable.json')))
    for p in props:
        pid = p['id']
        if pid in CHECKS:
            c = CHECKS[pid]
            checks.append({
                'property_id': pid,
                'quick_cmd': './check %s --tier quick' % pid,
                'thorough_cmd': './check %s --tier thorough' % pid,
                'evidence_file': 'evidence/%s.json' % pid,
                'replay_cmd_template': './check %s --replay {path}' % pid,
                'engine': 'symx',
                'level_claimed': {'category': 'other', 'text': c['text'], 'design_ref': c['design']},
                'level_note': c['note'],
                'technique': c['technique'],
            })
        else:
            na.append({'property_id': pid, 'reason': extra_na.get(pid, 'check not built yet in this round (planned, see DESIGN.md section 3)')})
    m = {
        'version': 1,
        'setup_cmd': './setup.sh',
        'hooks': {'guard': 'TXEMAOTERO_GADDLEMAPS_VERIF', 'enable': 'no source hooks: all instrumentation is module-global substitution inside the harness process (checks export TXEMAOTERO_GADDLEMAPS_VERIF=1 for uniformity)',
                  'baseline_off_cmd': './baseline.sh', 'source_commits': [], 'add_only': True},
        'engines': [{'name': 'symx', 'path': 'symx/', 'serves_properties': sorted(CHECKS),
                     'kind_free_text': 'symbolic scalars (z3 Real/Int/Bool) inside real numpy object arrays executing the real gaddlemaps code; DART-style re-execution path exploration; SMT obligations; AST->SMT kernels; CrossHair for string code'}],
        'checks': checks,
        'not_applicable': na,
        'notes': 'All checks rebuild their encodings from /repo working tree on every run (the real modules are imported and executed symbolically). Exit 3 = harness inconclusive (never on the unchanged tree).',
    }
    json.dump(m, open(os.path.join(HERE, 'MANIFEST.json'), 'w'), indent=1)
    print('MANIFEST.json: %d checks, %d not_applicable' % (len(checks), len(na)))
if __name__ == '__main__':
    main()
