#!/usr/bin/env python3
"""debug helper: run one case of a property module in-process:  tools/runcase.py C01 chain4/tgt1 [tier]"""
import sys, os, time, json
HERE = os.path.dirname(os.path.dirname(os.path.abspath(__file__)))
sys.path.insert(0, HERE)
import importlib
mod = importlib.import_module('props.' + sys.argv[1])
tier = sys.argv[3] if len(sys.argv) > 3 else 'quick'
cs = [c for c in mod.cases(tier) if sys.argv[2] in c['name']]
c = cs[0]; c['tier'] = tier; c['seed'] = 0
t = time.time()
out = mod.run_case(c)
for r in out['records']:
    if r['status'] not in ('unsat', 'twin', 'validated') or (r.get('secs') or 0) > 2:
        print(r['status'], r.get('secs'), r['name'][:140], str(r.get('detail', ''))[:200])
import collections
print(collections.Counter(r['status'] for r in out['records']), 'paths', out.get('paths'), 'wall', round(time.time() - t, 1))
