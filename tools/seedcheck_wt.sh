#!/bin/sh
# tools/seedcheck_wt.sh <worktree> <patch.diff> <check id> [extra check args...]
# Evaluates a seeded change WITHOUT touching /repo: the patch is applied inside the scratch worktree, the check runs
# with PYTHONPATH=<worktree> (which shadows the editable install of /repo), evidence goes to a scratch directory,
# and the worktree is restored afterwards.  Several of these can run next to each other and next to a check of /repo.
WT="$1"; shift
PATCH="$(cd "$(dirname "$1")" && pwd)/$(basename "$1")"; shift
ID="$1"; shift
OUT="$(mktemp /tmp/seedcheck.XXXXXX)"
cd "$WT" || exit 9
git diff --quiet || { echo "$WT has uncommitted changes: refusing"; exit 9; }
git apply "$PATCH" || { echo "patch does not apply"; exit 9; }
cd /verif && PYTHONPATH="$WT" VERIF_EVIDENCE_DIR="$WT/_evidence" ./check "$ID" "$@" > "$OUT" 2>&1
RC=$?
cd "$WT" && git checkout -- .
grep -E "VIOLATION|UNCONFIRMED|HARNESS|KNOWN|tier=" "$OUT" | cut -c1-400 | head -8
echo "exit=$RC out=$OUT"
