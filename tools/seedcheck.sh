#!/bin/sh
# tools/seedcheck.sh <patch.diff> <check id> [extra check args...]
# Applies a seeded change to /repo, runs one check, and always restores /repo afterwards.
PATCH="$(cd "$(dirname "$1")" && pwd)/$(basename "$1")"; shift
ID="$1"; shift
cd /repo || exit 9
git diff --quiet || { echo "/repo has uncommitted changes: refusing"; exit 9; }
git apply "$PATCH" || { echo "patch does not apply"; exit 9; }
cd /verif && VERIF_EVIDENCE_DIR=/tmp/seedcheck_evidence ./check "$ID" "$@" > /tmp/seedcheck.out 2>&1
RC=$?
cd /repo && git checkout -- . 
grep -E "VIOLATION|UNCONFIRMED|HARNESS|KNOWN|tier=" /tmp/seedcheck.out | cut -c1-400 | head -8
echo "exit=$RC"
