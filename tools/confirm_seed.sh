#!/bin/sh
# tools/confirm_seed.sh <worktree> : confirms the two seeds under <worktree>/_seed/{1,2}
# (patch applies, the 74 stable tests pass with it, demo.py exits 1 with it and 0 without it)
WT=$1
cd $WT || exit 1
git checkout -q -- gaddlemaps
for k in 1 2; do
  S=$WT/_seed/$k
  PYTHONPATH=$WT /venv/bin/python $S/demo.py $WT >/dev/null 2>&1; D0=$?
  git apply $S/patch.diff || { echo "$WT/$k patch-fails"; continue; }
  PYTHONPATH=$WT /venv/bin/python $S/demo.py $WT >/dev/null 2>&1; D1=$?
  PYTHONPATH=$WT /venv/bin/python -m pytest -q -p no:cacheprovider --timeout=900 --junitxml=$S/junit.xml test/ >/dev/null 2>&1
  T=$(/venv/bin/python - $S/junit.xml <<'PY'
import sys, json, xml.etree.ElementTree as ET
base = json.load(open('/root/.vp/BASELINE.json'))
ok = set()
for tc in ET.parse(sys.argv[1]).getroot().iter('testcase'):
    if not [c for c in tc if c.tag in ('failure', 'error', 'skipped')]:
        ok.add(tc.get('classname') + '::' + tc.get('name'))
missing = [t for t in base['stable_pass'] if t not in ok]
print('%d/%d' % (len(base['stable_pass']) - len(missing), len(base['stable_pass'])), ' '.join(missing))
PY
)
  git checkout -q -- gaddlemaps
  rm -f $S/junit.xml
  echo "$(basename $WT)/$k demo_without=$D0 demo_with=$D1 stable=$T"
done
